(* C13 — parallel.Do / DoContext / Map / MapContext (parallel/parallel.go).
   Only statements live here; each is closed by [exact] of a lemma proved in Conc/ParDoProofs.v.

   Model (Conc/ParDo.v): [config] = (context API?, Map wrapper?, n, requested parallelism, GOMAXPROCS);
   [eff c] = the parallelism the code computes (<= 0 -> GOMAXPROCS, capped by n); [seqm c] = the
   sequential path is taken (eff c = 1); [use_eg c] = errgroup + ctx.Err() check exist (context API on
   the parallel path).  [reach c g s] = s is reachable from the initial state of the scenario with
   configuration c and gating g by ANY sequence of labels: any interleaving of the workers' steps, any
   results and values chosen by f at its return, any latency (a call returns when the environment
   says so), any cancellation of the caller's context (before the call, in flight, or never).
   Ghosts: [started s] = indices f was entered with (in order), [finished s] = (index, error code,
   value) of every returned call, [cstarts s] = calls entered with a Done context while the caller's
   context was not Done ([cstarts_spec]).  [returning s r]: the API call is about to return / has
   returned r.  [inprogress s] = number of threads inside f or inside the positional write. *)
From Juniper Require Import Common.Base Conc.GoLTS Conc.ParDo Conc.ParDoProofs.
From Coq Require Import Permutation.
Local Open Scope nat_scope.

(* No index is ever started twice (in any state of any run), only indices of [0,n) are started, and no
   call returns twice. *)
Theorem C13_exactly_once_no_dup : forall c g s, reach c g s ->
  NoDup (started s) /\ (forall i, In i (started s) -> i < c_n c) /\ NoDup (map fidx (finished s)).
Proof. exact pardo_no_double_start. Qed.

(* If no call failed and the caller's context has not become Done, the API returns nil and, at the
   return, every index of [0,n) has been started exactly once and has finished exactly once. *)
Theorem C13_exactly_once : forall c g s r,
  1 <= c_gmp c -> reach c g s -> returning s r ->
  (forall x, In x (finished s) -> ferr x = None) -> cctx s <> CDone ->
  r = None /\ Permutation (started s) (seq 0 (c_n c)) /\ Permutation (map fidx (finished s)) (seq 0 (c_n c)).
Proof. exact pardo_exactly_once. Qed.

(* More generally a nil return always means that everything ran exactly once. *)
Theorem C13_exactly_once_nil : forall c g s,
  1 <= c_gmp c -> reach c g s -> returning s None ->
  Permutation (started s) (seq 0 (c_n c)) /\ Permutation (map fidx (finished s)) (seq 0 (c_n c)).
Proof. exact pardo_nil_exactly_once. Qed.

(* At most eff c calls are in progress in any state: never more than the requested parallelism, resp.
   GOMAXPROCS when the request is <= 0. *)
Theorem C13_bounded : forall c g s, reach c g s ->
  inprogress s <= eff c /\
  ((0 < c_par c)%Z -> inprogress s <= Z.to_nat (c_par c)) /\
  ((c_par c <= 0)%Z -> inprogress s <= c_gmp c).
Proof. exact pardo_bounded. Qed.

(* Barrier: the return is enabled only when no call (and no positional write) is in progress and every
   worker has finished; after the return no call can start and nothing is in progress. *)
Theorem C13_barrier : forall c g s r o s', reach c g s -> step s (LRet r o) = Some s' ->
  inprogress s = 0 /\ (forall w p, nth_error (ws s) w = Some p -> p = WDone).
Proof. exact pardo_barrier_ret. Qed.

Theorem C13_barrier_after : forall c g s r, reach c g s -> pc s = MDone r ->
  (forall w i b, step s (LEnter w i b) = None) /\
  (forall w p, nth_error (ws s) w = Some p -> p = WDone) /\ inprogress s = 0.
Proof. exact pardo_barrier_after. Qed.

(* Map / MapContext returning without error hand back [out]; out[i] is the value returned by the one
   call of f on element i; if those values are f i then out = map f [0..n). *)
Theorem C13_positional : forall c g s o s',
  1 <= c_gmp c -> c_map c = true -> reach c g s -> step s (LRet None o) = Some s' ->
  o = Some (out s) /\ length (out s) = c_n c /\
  (forall i, i < c_n c -> exists v, In (i, None, v) (finished s) /\ nth_error (out s) i = Some v /\
                                    forall r' v', In (i, r', v') (finished s) -> r' = None /\ v' = v) /\
  (forall f : nat -> Z, (forall i r v, In (i, r, v) (finished s) -> v = f i) -> out s = map f (seq 0 (c_n c))).
Proof. exact pardo_positional. Qed.

(* Error contract, when the call returns r:
   - an error code returned is the code returned by some call of f;
   - the context error is returned only if the caller's context is Done, and only on the parallel path
     (the sequential path never consults the context: see ex_seq_ignores_ctx in ParDoProofs.v);
   - on the parallel path of the context API the derived context handed to f is Done before the return;
   - nil is returned only if no started call failed; Do / Map never return an error;
   - on the sequential path at most one call failed and its error is the one returned.
   That no call starts after the return is C13_barrier_after. *)
Theorem C13_error_contract : forall c g s r, reach c g s -> returning s r ->
  (forall k, r = Some (EF k) -> exists i v, In (i, Some k, v) (finished s)) /\
  (r = Some ECtx -> cctx s = CDone /\ use_eg c = true) /\
  (use_eg c = true -> dctx s = true) /\
  (r = None -> forall x, In x (finished s) -> ferr x = None) /\
  (c_ctx c = false -> r = None) /\
  (seqm c = true -> (forall x y, In x (finished s) -> In y (finished s) -> ferr x <> None -> ferr y <> None -> x = y) /\
                    (forall i k v, In (i, Some k, v) (finished s) -> r = Some (EF k))).
Proof. exact pardo_error_contract. Qed.

(* While the caller's context is not Done, at most (effective parallelism - 1) calls begin with an
   already cancelled context: a worker starts such a call only if the cancellation fell between its
   ctx.Err() check and its call, which happens at most once per worker, and the worker whose error
   cancelled the context starts nothing afterwards (invariant D_win).  The bound is tight
   (ex_err_runs).  [cstarts_spec] pins down what the ghost counter counts. *)
Theorem C13_cancelled_starts : forall c g s, reach c g s -> cstarts s <= eff c - 1.
Proof. exact pardo_cancelled_starts. Qed.

Theorem C13_cancelled_starts_counter : forall s l s', qstep s l = Some s' ->
  cstarts s' = cstarts s + match l with
                           | LEnter _ _ true => if cdone (cctx s) then 0 else 1
                           | _ => 0
                           end.
Proof. exact cstarts_spec. Qed.

(* Termination = progress + variant.  Progress: while the call is pending some step of the library is
   enabled, unless a call of f is being held back by the scenario (f has not returned); every unfinished
   worker individually can step unless it is the one inside such a call.  Variant: every step of the
   library (and every return of f) decreases [mu]; the controller's steps do not increase it (a Cancel
   adds the single step in which it takes effect).  Hence, if every f returns, the call returns. *)
Theorem C13_terminates_progress : forall s,
  pc s = MWait \/ (exists r, pc s = MRetp r) ->
  (exists l, lib_label l = true /\ step s l <> None) \/
  (exists w i, nth_error (ws s) w = Some (WIn i) /\ gate_open s i = false).
Proof. exact pardo_progress. Qed.

Theorem C13_terminates_progress_worker : forall s w p,
  nth_error (ws s) w = Some p -> p <> WDone ->
  (exists l, lib_label l = true /\ thread_of l = Some w /\ step s l <> None) \/
  (exists i, p = WIn i /\ gate_open s i = false).
Proof. exact pardo_progress_worker. Qed.

Theorem C13_terminates_variant : forall s l s', step s l = Some s' -> lib_label l = true -> mu s' < mu s.
Proof. exact pardo_variant. Qed.

Theorem C13_terminates_env : forall s l s', qstep s l = Some s' ->
  match l with LCancel => mu s' <= mu s + 1 | LCancelDone | LRelease _ | LQuiesce => mu s' = mu s | _ => True end.
Proof. exact pardo_variant_env. Qed.

(* The matcher's reduced exploration only takes genuine steps of the model. *)
Theorem C13_matcher_steps_are_runs : forall will s l s', mstep will s l = Some s' ->
  exists ls, Forall (fun x => vis x = None) ls /\ run qstep s (l :: ls) = Some s'.
Proof. exact mstep_run. Qed.

Print Assumptions C13_exactly_once_no_dup.
Print Assumptions C13_exactly_once.
Print Assumptions C13_exactly_once_nil.
Print Assumptions C13_bounded.
Print Assumptions C13_barrier.
Print Assumptions C13_barrier_after.
Print Assumptions C13_positional.
Print Assumptions C13_error_contract.
Print Assumptions C13_cancelled_starts.
Print Assumptions C13_cancelled_starts_counter.
Print Assumptions C13_terminates_progress.
Print Assumptions C13_terminates_progress_worker.
Print Assumptions C13_terminates_variant.
Print Assumptions C13_terminates_env.
Print Assumptions C13_matcher_steps_are_runs.

(* ---- the correspondence check's (reduced) history matcher is sound for this model (Conc/ParDoMatcher.v):
        every accepted history is the visible trace of a run of the unreduced model ---- *)
From Juniper Require Conc.GoLTSProofs Conc.ParDoMatcher.

Theorem C13_matcher_sound : forall c gated evs,
    accepts_history c gated evs = true ->
    exists ls s, run qstep (init c gated) ls = Some s /\ ParDoMatcher.pardo_trace ls = evs.
Proof. exact ParDoMatcher.pardo_accepts_sound. Qed.

Print Assumptions C13_matcher_sound.

(* Tie to the source: the Go functions the model transcribes still contain exactly the synchronisation operations
   (select arms, channel operations, goroutine starts, timer/context/sync calls) the model accounts for.
   Generated/Census.v is re-extracted from the Go source on every run (tools/gofacts/census.go). *)
From Juniper Require Translated.CensusC13.
Theorem C13_source_census : Translated.CensusC13.census_expected_C13.
Proof. exact Translated.CensusC13.census_C13_ok. Qed.
Print Assumptions C13_source_census.

(* ---- and complete (Conc/ParDoMatcherComplete.v): wherever its exploration converged (checked by evaluation for every
        history the check rejects), a rejected history is the visible trace of NO run of the unreduced model; so
        acceptance is equivalent to being a trace of the model ---- *)
From Juniper Require Conc.ParDoMatcherComplete.

Theorem C13_matcher_rejections_genuine : forall c gated evs,
    ParDoMatcherComplete.pardo_converged c gated evs = true -> accepts_history c gated evs = false ->
    forall ls s, run qstep (init c gated) ls = Some s -> ParDoMatcher.pardo_trace ls <> evs.
Proof. exact ParDoMatcherComplete.pardo_reject_genuine. Qed.

Theorem C13_matcher_exact : forall c gated evs,
    ParDoMatcherComplete.pardo_converged c gated evs = true ->
    (accepts_history c gated evs = true <->
     exists ls s, run qstep (init c gated) ls = Some s /\ ParDoMatcher.pardo_trace ls = evs).
Proof. exact ParDoMatcherComplete.pardo_accepts_iff. Qed.

Print Assumptions C13_matcher_rejections_genuine.
Print Assumptions C13_matcher_exact.
