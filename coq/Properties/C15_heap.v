(* C15 (heap and priority-queue part) — Heap.Iterate and PriorityQueue.Iterate are
   snapshot-or-panic, where the snapshot is the contents at the iterator's first Next (when it
   captures gen).  Holds for every ordering function (no assumption on less).
   Statements only. *)
From Juniper Require Import Common.Base Heap.Model Heap.Spec Heap.Proofs.

Section C15_heap.
  Variable less : Z -> Z -> bool.

  (* on an unchanged heap a fresh iterator yields exactly the contents, every element once *)
  Theorem C15_heap_unchanged : forall initial ops,
      let h := hh (hrun_state less initial ops) in
      iterate_all h = Some (Ok (ha h)).
  Proof. exact (heap_iter_unchanged less). Qed.

  (* for every history with any number of live iterators and any operations in between: what
     an iterator has returned is a prefix of its snapshot, and it reports exhaustion only after
     the whole snapshot (any other outcome of Next is a panic) *)
  Theorem C15_heap_snapshot_or_panic : forall initial ops,
      Forall ghost_ok (snd (hgrun less (hinit less initial) [] ops)).
  Proof. exact (heap_iter_ghost_ok less). Qed.

  (* once iteration is under way (first Next done), adding or removing an element makes the
     iterator's next call panic *)
  Theorem C15_heap_add_remove_panics : forall initial ops o it,
      let s := hrun_state less initial ops in
      h_adds_or_removes o = true ->
      snd (hstep less s o) <> OPanic ->
      In it (hits (fst (hstep less s o))) -> it_gen it <> -1 ->
      fst (iter_next (hh (fst (hstep less s o))) it) = Panic PModified.
  Proof. exact (heap_iter_add_remove_panics less). Qed.
End C15_heap.

Section C15_pq.
  Variable pless : Z -> Z -> bool.

  Theorem C15_pq_unchanged : forall initial ops,
      let q := qq (qrun_state pless initial ops) in
      pq_iterate_all q = Some (Ok (map fst (ha q))).
  Proof. exact (queue_iter_unchanged pless). Qed.

  Theorem C15_pq_snapshot_or_panic : forall initial ops,
      Forall ghost_ok (snd (qgrun pless (qinit pless initial) [] ops)).
  Proof. exact (queue_iter_ghost_ok pless). Qed.

  (* Update of a new or an existing key, Pop, and Remove of a present key *)
  Theorem C15_pq_add_remove_panics : forall initial ops o it,
      let s := qrun_state pless initial ops in
      q_modifies s o = true ->
      snd (qstep pless s o) <> OPanic ->
      In it (qits (fst (qstep pless s o))) -> it_gen it <> -1 ->
      fst (pq_iter_next (qq (fst (qstep pless s o))) it) = Panic PModified.
  Proof. exact (queue_iter_add_remove_panics pless). Qed.
End C15_pq.

Print Assumptions C15_heap_unchanged.
Print Assumptions C15_heap_snapshot_or_panic.
Print Assumptions C15_heap_add_remove_panics.
Print Assumptions C15_pq_unchanged.
Print Assumptions C15_pq_snapshot_or_panic.
Print Assumptions C15_pq_add_remove_panics.
