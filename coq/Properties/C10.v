(* C10 — stream.Pipe: FIFO per sender, nothing sent-before-close lost, no stuck call.
   Only statements live here; each is closed by [exact] of a lemma proved in Conc/PipeProofs.v.

   The model (Conc/Pipe.v) is a labelled transition system [qstep : st -> lab -> option st] whose
   labels carry the goroutine and every non-deterministic choice (which ready select arm is taken,
   which parked sender a receive completes).  [init n nt nc] is the initial state of a scenario with
   buffer size n (any n >= 0), nt sender goroutines (any number) and nc contexts; the environment
   (the [LCall...] / [LCancel] labels) may start any Send / TrySend / PipeSender.Close (once) / Next
   (one at a time) / receiver Close at any time, so "reachable" quantifies over all scenarios, all
   schedules and all select choices.

   Ghost history in the state:
     g_sent   values (sender thread, call number) passed to Send / TrySend calls
     g_comm   values that entered the channel (buffer, hand-off to a parked Next, rendezvous), in order
     g_rcvd   values the receiver took out of the channel, in order
     g_ret    values returned by Next, in order
     g_acked  values whose Send returned nil / TrySend returned (true, nil) while PipeSender.Close
              had not been invoked yet *)
From Juniper Require Import Common.Base Conc.GoLTS Conc.Pipe Conc.PipeProofs.
From Coq Require Import Sorted.
Local Open Scope nat_scope.

(* ---------------------------------------------------------------------------------------------- *)
(* 1. only sent values, each at most once, each sender's values in the order sent                   *)
(* ---------------------------------------------------------------------------------------------- *)

(* [vlt w v]: if w and v come from the same sender then w belongs to the earlier call.
   [pend (rcv s)] is the value held by a Next that has taken it but not returned yet. *)
Theorem C10_fifo_no_dup : forall n nt nc s,
    reachable qstep (init n nt nc) s ->
    g_ret s ++ pend (rcv s) ++ buf s = g_comm s /\
    (forall t, filter (from t) (g_ret s) ++ filter (from t) (pend (rcv s)) ++ filter (from t) (buf s)
               = filter (from t) (g_comm s)) /\
    incl (g_comm s) (g_sent s) /\ StronglySorted vlt (g_comm s) /\ NoDup (g_comm s) /\
    incl (g_ret s) (g_sent s) /\ StronglySorted vlt (g_ret s) /\ NoDup (g_ret s) /\
    length (buf s) <= cap s.
Proof. exact fifo_no_dup. Qed.

(* g_comm is the sequence of committed sends: a value of thread t is in it only for a call of t that
   has returned, or for the current call when it is about to return success *)
Theorem C10_committed_calls : forall n nt nc s t x i,
    reachable qstep (init n nt nc) s -> getT s t = Some x -> In (t, i) (g_comm s) ->
    i < t_idx x \/ (i = t_idx x /\ committed (t_pc x) = true).
Proof. exact committed_calls. Qed.

(* ---------------------------------------------------------------------------------------------- *)
(* 2. nothing acknowledged before Close is lost                                                     *)
(* ---------------------------------------------------------------------------------------------- *)

(* whenever Next returns End or the close error, every value whose Send had returned nil before
   PipeSender.Close was invoked has already been returned by Next; End is reported only after the
   sender was closed, and the error exactly when Close was given one.
   (False for the code before the repair: the senderDone arm could overtake buffered values.) *)
Theorem C10_no_loss_before_end : forall n nt nc s r s',
    reachable qstep (init n nt nc) s ->
    qstep s (LRetNext r) = Some s' -> is_end r = true ->
    incl (g_acked s) (g_ret s) /\ sdone s = true /\ (r = VErr <-> g_cerr s = true).
Proof. exact no_loss_before_end. Qed.

Theorem C10_acked_entered : forall n nt nc s,
    reachable qstep (init n nt nc) s -> incl (g_acked s) (g_comm s).
Proof. exact acked_committed. Qed.

(* ---------------------------------------------------------------------------------------------- *)
(* 3. the end, once determined with no Send in flight, keeps being reported                         *)
(* ---------------------------------------------------------------------------------------------- *)

(* [settled s]: senderDone is closed, the buffer is empty, no Send is past its senderDone poll and no
   TrySend past its first select ([inflight]), no Next holds an unreturned value.
   From a settled state on, along EVERY continuation (new Send / TrySend calls, cancellations,
   receiver Close, any number of Next calls): nothing enters the channel any more (a Send that starts
   after the close returns at its poll), nothing is received, and every Next that returns reports
   End / the close error (or its own context's error if that context is done). *)
Theorem C10_end_sticky : forall s ls s',
    settled s -> run qstep s ls = Some s' ->
    settled s' /\ g_comm s' = g_comm s /\ g_rcvd s' = g_rcvd s /\
    forall r, In (LRetNext r) ls -> r = VEnd \/ r = VErr \/ r = VCtx.
Proof. exact end_sticky. Qed.

(* the step in which a Next decides to report the end leads to a settled state when no Send/TrySend
   is in flight at that moment *)
Theorem C10_end_report_settled : forall n nt nc s s',
    reachable qstep (init n nt nc) s -> noinf (ths s) -> qstep s TDrainEmpty = Some s' ->
    settled s' /\ rcv s' = RRet (endres s).
Proof. exact end_report_settled. Qed.

(* a Send that is at its first select when the sender is already closed can only return *senderErr *)
Theorem C10_send_after_close_returns : forall s t x c,
    sdone s = true -> getT s t = Some x -> t_pc x = SPre c ->
    step s (TPrePoll t) = Some (setT s t (set_pc x (SRetSend false (errres s)))).
Proof. exact prepoll_after_close. Qed.

(* ---------------------------------------------------------------------------------------------- *)
(* 4. no call blocks forever                                                                        *)
(* ---------------------------------------------------------------------------------------------- *)

(* [can_move s t]: an internal step or the return of sender thread t is enabled in s;
   [recv_can_move s]: an internal step or the return of the receiver's Next is enabled.
   - a pending Send has a step whenever the receiver is closed, the sender is closed, its context is
     done, a Next is waiting or the buffer has room;
   - a pending TrySend has a step in every reachable state (it never parks);
   - a pending Next has a step whenever a value is buffered or offered by a parked sender
     ([chan_empty s = false]), the sender is closed, or its context is done. *)
Theorem C10_no_stuck_call : forall n nt nc s,
    reachable qstep (init n nt nc) s ->
    (forall t x c, getT s t = Some x ->
       t_pc x = SPre c \/ t_pc x = SSel c \/ t_pc x = SParked c ->
       rdone s = true \/ sdone s = true \/ ctx_done s c = true \/ rparked (rcv s) = true \/ has_room s = true ->
       can_move s t) /\
    (forall t x, getT s t = Some x ->
       (exists c, t_pc x = TPoll c) \/ (exists c, t_pc x = TSel2 c) \/ (exists ok r, t_pc x = SRetTry ok r) ->
       can_move s t) /\
    (rcv s <> RIdle ->
     (forall c, rcv s = RParked c -> chan_empty s = false \/ sdone s = true \/ ctx_done s c = true) ->
     recv_can_move s).
Proof. exact no_stuck_call. Qed.

(* the converse reading: a parked Send / Next is blocked for exactly the documented reasons *)
Theorem C10_parked_send_blocked : forall n nt nc s t x c,
    reachable qstep (init n nt nc) s -> getT s t = Some x -> t_pc x = SParked c ->
    rdone s = false /\ sdone s = false /\ ctx_done s c = false /\ rparked (rcv s) = false /\ has_room s = false.
Proof. exact parked_send_blocked. Qed.

Theorem C10_parked_next_blocked : forall n nt nc s c,
    reachable qstep (init n nt nc) s -> rcv s = RParked c ->
    chan_empty s = true /\ sdone s = false /\ ctx_done s c = false.
Proof. exact parked_next_blocked. Qed.

(* TrySend never parks: in EVERY state, reachable or not *)
Theorem C10_trysend_never_blocks : forall s t x,
    getT s t = Some x ->
    (exists c, t_pc x = TPoll c) \/ (exists c, t_pc x = TSel2 c) \/ (exists ok r, t_pc x = SRetTry ok r) ->
    can_move s t.
Proof. exact trysend_never_blocks. Qed.

(* a decided Send returns; both Close calls never block *)
Theorem C10_send_returns : forall s t x b r, getT s t = Some x -> t_pc x = SRetSend b r -> can_move s t.
Proof. exact send_returns. Qed.

Theorem C10_close_never_blocks : forall s t x,
    getT s t = Some x -> (exists e, t_pc x = CWrite e) \/ t_pc x = CCloseCh \/ t_pc x = SRetClose -> can_move s t.
Proof. exact close_never_blocks. Qed.

Theorem C10_rclose_never_blocks : forall s,
    (rcl s = RCCalled -> enabled s TRClose = true) /\ (rcl s = RCClosed -> enabled s LRetRClose = true).
Proof. exact rclose_never_blocks. Qed.

(* variant: every internal step strictly decreases [measure] (the number of internal steps the calls in
   progress can still take), so the library cannot run internally forever: with the progress theorems,
   under a fair scheduler every call whose enabling condition holds does return *)
Theorem C10_tau_variant : forall s l s', is_tau l = true -> step s l = Some s' -> measure s' < measure s.
Proof. exact tau_variant. Qed.

Theorem C10_tau_runs_bounded : forall s ls s',
    Forall (fun l => is_tau l = true) ls -> run step s ls = Some s' -> length ls + measure s' <= measure s.
Proof. exact tau_runs_bounded. Qed.

Print Assumptions C10_fifo_no_dup.
Print Assumptions C10_committed_calls.
Print Assumptions C10_no_loss_before_end.
Print Assumptions C10_acked_entered.
Print Assumptions C10_end_sticky.
Print Assumptions C10_end_report_settled.
Print Assumptions C10_send_after_close_returns.
Print Assumptions C10_no_stuck_call.
Print Assumptions C10_parked_send_blocked.
Print Assumptions C10_parked_next_blocked.
Print Assumptions C10_trysend_never_blocks.
Print Assumptions C10_send_returns.
Print Assumptions C10_close_never_blocks.
Print Assumptions C10_rclose_never_blocks.
Print Assumptions C10_tau_variant.
Print Assumptions C10_tau_runs_bounded.

(* ---- the correspondence check's history matcher is certified for this model (Conc/PipeMatcher.v) ---- *)
From Juniper Require Conc.GoLTSProofs Conc.PipeMatcher.

Theorem C10_matcher_sound : forall n nt nc evs,
    accepts_history n nt nc evs = true ->
    exists ls s, run qstep (init n nt nc) ls = Some s /\ PipeMatcher.pipe_trace ls = evs.
Proof. exact PipeMatcher.pipe_accepts_sound. Qed.

Theorem C10_matcher_rejections_genuine : forall n nt nc evs,
    PipeMatcher.pipe_converged n nt nc evs = true -> accepts_history n nt nc evs = false ->
    forall ls s, run qstep (init n nt nc) ls = Some s -> PipeMatcher.pipe_trace ls <> evs.
Proof. exact PipeMatcher.pipe_reject_genuine. Qed.

Print Assumptions C10_matcher_sound.
Print Assumptions C10_matcher_rejections_genuine.

(* Tie to the source: the Go functions the model transcribes still contain exactly the synchronisation operations
   (select arms, channel operations, goroutine starts, timer/context/sync calls) the model accounts for.
   Generated/Census.v is re-extracted from the Go source on every run (tools/gofacts/census.go). *)
From Juniper Require Translated.CensusC10.
Theorem C10_source_census : Translated.CensusC10.census_expected_C10.
Proof. exact Translated.CensusC10.census_C10_ok. Qed.
Print Assumptions C10_source_census.
