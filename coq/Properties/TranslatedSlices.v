(* C19 (xslices part) -- the tie to the source by translation.
   Generated/ImpSlices.v is the statement-level translation of All, CountFunc, Fill, LastIndexFunc, Partition,
   Reduce and Reverse of xslices/xslices.go, regenerated from the Go source on every run by tools/gofacts/imp.go,
   with 64-bit wrap-around on every int operation, the run-time panic of every index expression explicit, and
   every loop run with fuel S (length s) (running out of fuel is Panic POther).
   The theorems below say that on every slice of ints shorter than 2^62 (where the hypothesis is absent the
   statement holds for every slice) and for every callback, each translated function returns Ok of exactly the
   value -- and, for the in-place functions, the final contents of s -- that the hand-written model of
   Pure/Slices.v computes, the one the specifications of Properties/C19.v are about.  In particular the translated
   code never panics and never runs out of fuel.  Only statements live here; each is closed by [exact] of a lemma of
   Translated/ImpSlicesOK.v. *)
From Juniper Require Import Common.Base Pure.Slices.
From Juniper Require Import Translated.GoImp Generated.ImpSlices Translated.ImpSlicesOK.

Theorem C19_translated_All : forall (s : list Z) (f : Z -> bool),
    gi_xslices_All s f = Ok (all f s).
Proof. exact gi_All_ok. Qed.

Theorem C19_translated_CountFunc : forall (s : list Z) (f : Z -> bool),
    zlen s < 2^62 -> gi_xslices_CountFunc s f = Ok (count_func f s).
Proof. exact gi_CountFunc_ok. Qed.

(* the value is the contents of s after the call *)
Theorem C19_translated_Fill : forall (s : list Z) (x : Z),
    gi_xslices_Fill s x = Ok (fill s x).
Proof. exact gi_Fill_ok. Qed.

Theorem C19_translated_LastIndexFunc : forall (s : list Z) (f : Z -> bool),
    zlen s < 2^62 -> gi_xslices_LastIndexFunc s f = Ok (last_index_func f s).
Proof. exact gi_LastIndexFunc_ok. Qed.

(* the value is (returned index, contents of s after the call) *)
Theorem C19_translated_Partition : forall (s : list Z) (f : Z -> bool),
    zlen s < 2^62 -> gi_xslices_Partition s f = Ok (partition f s).
Proof. exact gi_Partition_ok. Qed.

(* Go: Reduce(s, initial, f); model: reduce f s initial *)
Theorem C19_translated_Reduce : forall (s : list Z) (init : Z) (f : Z -> Z -> Z),
    gi_xslices_Reduce s init f = Ok (reduce f s init).
Proof. exact gi_Reduce_ok. Qed.

(* the value is the contents of s after the call *)
Theorem C19_translated_Reverse : forall (s : list Z),
    zlen s < 2^62 -> gi_xslices_Reverse s = Ok (reverse s).
Proof. exact gi_Reverse_ok. Qed.

(* non-vacuity: the translated code RUNS.  All on an all-true, a mixed and an empty slice; CountFunc; Fill;
   LastIndexFunc found and not found; Partition with a mixed predicate (two swaps), an all-false, an all-true and
   an empty slice; Reduce with a non-commutative f; Reverse of odd, even and zero length *)
Example C19_translated_slices_run :
  let big := fun x => 4 <? x in
  (gi_xslices_All [2; 4; 6] Z.even, gi_xslices_All [2; 3; 6] Z.even, gi_xslices_All (@nil Z) Z.even,
   gi_xslices_CountFunc [5; 2; 8; 1; 9; 4; 7] big,
   gi_xslices_Fill [1; 2; 3] 7,
   gi_xslices_LastIndexFunc [5; 2; 8; 1; 9; 4; 7] (fun x => x <? 3),
   gi_xslices_LastIndexFunc [5; 2; 8] (fun x => x <? 0),
   gi_xslices_Partition [5; 2; 8; 1; 9; 4; 7] big,
   gi_xslices_Partition [1; 2; 3] big,
   gi_xslices_Partition [7; 8; 9] big,
   gi_xslices_Partition (@nil Z) big,
   gi_xslices_Reduce [1; 2; 3; 4] 100 Z.sub,
   gi_xslices_Reverse [1; 2; 3; 4; 5], gi_xslices_Reverse [1; 2; 3; 4], gi_xslices_Reverse (@nil Z))
  = (Ok true, Ok false, Ok true,
     Ok 4,
     Ok [7; 7; 7],
     Ok 3,
     Ok (-1),
     Ok (3, [4; 2; 1; 8; 9; 5; 7]),
     Ok (3, [1; 2; 3]),
     Ok (0, [7; 8; 9]),
     Ok (0, []),
     Ok 90,
     Ok [5; 4; 3; 2; 1], Ok [4; 3; 2; 1], Ok []).
Proof. vm_compute. reflexivity. Qed.

Print Assumptions C19_translated_All.
Print Assumptions C19_translated_CountFunc.
Print Assumptions C19_translated_Fill.
Print Assumptions C19_translated_LastIndexFunc.
Print Assumptions C19_translated_Partition.
Print Assumptions C19_translated_Reduce.
Print Assumptions C19_translated_Reverse.
Print Assumptions C19_translated_slices_run.
