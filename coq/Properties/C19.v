(* C19 - each pure helper in xslices, xsort, xmaps, xmath, xerrors and xmath/xrand returns for
   every input exactly what its documentation specifies, including documented in-place and
   aliasing effects and documented panics; the xrand Sample functions return min(k, n) items
   taken from distinct positions of the input and Shuffle returns a permutation.

   Only statements live here; each is closed by [exact] of a lemma proved in Pure/Proofs*.v.
   Every section ends with a Theorem that is literally the conjunction of the section's
   statements (its type is computed from them), followed by Print Assumptions: one assumption
   check per section covers every statement of the section (running it on each of the 100+
   statements separately costs half a minute on every check).  The statements are about the executable models of
   Pure/{Slices,Sort,Maps,Misc,Rand}.v (layer M), which the check ties to the Go code on every
   run (Pure/Corr.v, harness_pure).

   Defects of the code as it is in /repo and configuration switches (Pure/Config.v): the models
   of Chunk, Runs and WithStack take booleans selecting the current code (false) or the planned
   fix (true).  The spec theorems below are stated and proved for the FIXED configuration
   ([chunk true true], [runs true], [with_stack true]); for the current configuration the
   [_refuted] theorems exhibit the failing inputs, and the [_current_agrees] theorems delimit
   where the current code is nevertheless right.  The [_shipped] theorems at the end restate
   the specs for the configuration actually selected in Pure/Config.v (the one the
   correspondence check runs against the code), under the hypothesis that the switch is on.

   NOT proved (and not provable in this development): "every such subset being equally
   likely".  The sampling functions draw continuous random variates through math.Log/math.Exp
   in float64 (Algorithm L); the models replace those draws by an arbitrary oracle, so the
   theorems C19_sample_structure / C19_sample_support_partial / C19_shuffle_permutation hold for
   EVERY behaviour of the random source, but say nothing about probabilities.  The check reports
   chi-square tables of observed subset frequencies as supporting data only. *)
From Coq Require Import Permutation Sorted.
From Juniper Require Import Common.Base Pure.Config Pure.Slices Pure.Sort Pure.Maps Pure.Misc Pure.Rand Pure.Spec.
From Juniper Require Pure.ProofsSlicesA Pure.ProofsSlicesB Pure.ProofsSlicesC Pure.ProofsSort Pure.ProofsMaps Pure.ProofsMisc Pure.ProofsRand.

(* ================================================================== xslices: Partition, RemoveUnordered, Unique, UniqueInPlace, Reverse *)
Lemma C19_partition_spec : forall (f : Z -> bool) (s s' : list Z) (r : Z),
    partition f s = (r, s') ->
    Permutation s s' /\
    0 <= r <= zlen s /\
    r = zlen (filter (fun x => negb (f x)) s) /\
    (forall x, In x (zfirstn r s') -> f x = false) /\
    (forall x, In x (zskipn r s') -> f x = true).
Proof. exact ProofsSlicesA.partition_spec. Qed.

Lemma C19_remove_unordered_spec : forall (s : list Z) (idx n : Z),
    (0 <= idx /\ 0 <= n /\ idx + n <= zlen s ->
       exists ret, remove_unordered s idx n = Ok (ret, ret ++ zeros n) /\
                   zlen ret = zlen s - n /\
                   zfirstn idx ret = zfirstn idx s /\
                   Permutation ret (zfirstn idx s ++ zskipn (idx + n) s)) /\
    (~ (0 <= idx /\ 0 <= n /\ idx + n <= zlen s) -> remove_unordered s idx n = Panic PIndex).
Proof. exact ProofsSlicesA.remove_unordered_spec. Qed.

Lemma C19_nub_props : forall s,
    NoDup (nub s) /\ (forall x, In x (nub s) <-> In x s) /\
    
    (forall s1 x s2, s = s1 ++ x :: s2 -> ~ In x s1 -> exists n1 n2, nub s = n1 ++ x :: n2 /\ (forall y, In y n1 <-> In y s1)).
Proof. exact ProofsSlicesA.nub_props. Qed.

Lemma C19_unique_spec : forall s, unique s = nub s.
Proof. exact ProofsSlicesA.unique_spec. Qed.

Lemma C19_unique_in_place_spec : forall s,
    unique_in_place s = (nub s, nub s ++ zeros (zlen s - zlen (nub s))).
Proof. exact ProofsSlicesA.unique_in_place_spec. Qed.

Lemma C19_reverse_spec : forall s, reverse s = rev s.
Proof. exact ProofsSlicesA.reverse_spec. Qed.

(* the conjunction of the 6 statements above; the framework runs Print Assumptions on it *)
Theorem C19_xslices_partition_remove_unique_reverse : ltac:(let t := type of (conj C19_partition_spec (conj C19_remove_unordered_spec (conj C19_nub_props (conj C19_unique_spec (conj C19_unique_in_place_spec C19_reverse_spec))))) in exact t).
Proof. exact (conj C19_partition_spec (conj C19_remove_unordered_spec (conj C19_nub_props (conj C19_unique_spec (conj C19_unique_in_place_spec C19_reverse_spec))))). Qed.
Print Assumptions C19_xslices_partition_remove_unique_reverse.

(* ================================================================== xslices: Chunk, Runs, Shrink, Grow, Insert, Remove *)
Lemma C19_chunk_panics : forall s c, c <= 0 -> chunk true true s c = Panic PNeg.
Proof. exact ProofsSlicesB.chunk_panics. Qed.

Lemma C19_chunk_spec : forall s c, 0 < c -> chunk true true s c = Ok (chunk_ranges (zlen s) c).
Proof. exact ProofsSlicesB.chunk_spec. Qed.

Lemma C19_chunk_ranges_props : forall (s : list Z) c, 0 < c ->
    let rs := chunk_ranges (zlen s) c in
    concat (map (slice_of s) rs) = s /\
    zlen rs = (zlen s + c - 1) / c /\
    (forall i r, nth_error rs i = Some r ->
        fst r = Z.of_nat i * c /\ snd r = Z.min ((Z.of_nat i + 1) * c) (zlen s) /\
        0 < snd r - fst r <= c /\ zlen (slice_of s r) = snd r - fst r /\
        ((S i < length rs)%nat -> snd r - fst r = c)) /\
    (s = [] -> rs = []).
Proof. exact ProofsSlicesB.chunk_ranges_props. Qed.

Lemma C19_chunk_current_agrees : forall s c, 0 < c -> zlen s + c - 1 < 2 ^ 63 ->
    chunk false false s c = chunk true true s c.
Proof. exact ProofsSlicesB.chunk_current_agrees. Qed.

Lemma C19_chunk_negative_refuted : exists s c, c <= 0 /\ chunk false false s c = Ok [].
Proof. exact ProofsSlicesB.chunk_negative_refuted. Qed.

Lemma C19_chunk_overflow_refuted : exists s c, 0 < c < 2 ^ 63 /\ chunk false false s c = Panic PNeg.
Proof. exact ProofsSlicesB.chunk_overflow_refuted. Qed.

Lemma C19_runs_spec : forall s same, map (slice_of s) (runs true s same) = runs_of same s.
Proof. exact ProofsSlicesB.runs_spec. Qed.

Lemma C19_runs_ranges_tile : forall s same,
    let rs := runs true s same in
    (forall r, In r rs -> 0 <= fst r < snd r /\ snd r <= zlen s) /\
    (forall i r1 r2, nth_error rs i = Some r1 -> nth_error rs (S i) = Some r2 -> snd r1 = fst r2) /\
    (s <> [] -> exists r0 rl, hd_error rs = Some r0 /\ fst r0 = 0 /\ last rs (0, 0) = rl /\ snd rl = zlen s) /\
    (s = [] -> rs = []).
Proof. exact ProofsSlicesB.runs_ranges_tile. Qed.

Lemma C19_runs_of_props : forall same s,
    concat (runs_of same s) = s /\
    (forall l, In l (runs_of same s) -> l <> [] /\ chain same l) /\
    
    (forall i l1 l2, nth_error (runs_of same s) i = Some l1 -> nth_error (runs_of same s) (S i) = Some l2 ->
        same (last l1 0) (hd 0 l2) = false).
Proof. exact ProofsSlicesB.runs_of_props. Qed.

Lemma C19_runs_of_transitive : forall same s,
    (forall a b c, same a b = true -> same b c = true -> same a c = true) ->
    forall l l1 a l2 b l3, In l (runs_of same s) -> l = l1 ++ a :: l2 ++ b :: l3 -> same a b = true.
Proof. exact ProofsSlicesB.runs_of_transitive. Qed.

Lemma C19_runs_refuted : exists s, map (slice_of s) (runs false s Z.eqb) <> runs_of Z.eqb s.
Proof. exact ProofsSlicesB.runs_refuted. Qed.

Lemma C19_runs_current_agrees : forall x y t same, same x y = true -> runs false (x :: y :: t) same = runs true (x :: y :: t) same.
Proof. exact ProofsSlicesB.runs_current_agrees. Qed.

Lemma C19_shrink_spec : forall s extra n,
    (0 <= n -> exists cap alias, shrink s extra n = Ok (s, cap, alias) /\
                 cap <= zlen s + n /\
                 (alias = true <-> zlen s + zlen extra <= zlen s + n) /\
                 (alias = true -> cap = zlen s + zlen extra)) /\
    (n < 0 -> exists c, shrink s extra n = Panic c).
Proof. exact ProofsSlicesB.shrink_spec. Qed.

Lemma C19_grow_spec : forall s extra n,
    (0 <= n -> exists lb alias, grow s extra n = Ok (s, lb, alias) /\ zlen s + n <= lb /\
                 (alias = true <-> n <= zlen extra) /\ (alias = true -> lb = zlen s + zlen extra)) /\
    (n < 0 -> grow s extra n = Panic PNeg).
Proof. exact ProofsSlicesB.grow_spec. Qed.

Lemma C19_insert_spec : forall s extra i v,
    (0 <= i <= zlen s ->
       let res := zfirstn i s ++ v ++ zskipn i s in
       exists alias after, insert s extra i v = Ok (res, alias, after) /\
         (alias = true <-> (v = [] \/ zlen v <= zlen extra)) /\
         (alias = false -> after = s ++ extra) /\
         (alias = true -> after = res ++ zskipn (zlen v) extra)) /\
    (~ (0 <= i <= zlen s) -> insert s extra i v = Panic PIndex).
Proof. exact ProofsSlicesB.insert_spec. Qed.

Lemma C19_remove_spec : forall s idx n,
    (0 <= idx /\ 0 <= n /\ idx + n <= zlen s ->
       let ret := zfirstn idx s ++ zskipn (idx + n) s in
       remove s idx n = Ok (ret, ret ++ zeros n)) /\
    (~ (0 <= idx /\ 0 <= n /\ idx + n <= zlen s) -> remove s idx n = Panic PIndex).
Proof. exact ProofsSlicesB.remove_spec. Qed.

(* the conjunction of the 16 statements above; the framework runs Print Assumptions on it *)
Theorem C19_xslices_chunk_runs_shrink_insert_remove : ltac:(let t := type of (conj C19_chunk_panics (conj C19_chunk_spec (conj C19_chunk_ranges_props (conj C19_chunk_current_agrees (conj C19_chunk_negative_refuted (conj C19_chunk_overflow_refuted (conj C19_runs_spec (conj C19_runs_ranges_tile (conj C19_runs_of_props (conj C19_runs_of_transitive (conj C19_runs_refuted (conj C19_runs_current_agrees (conj C19_shrink_spec (conj C19_grow_spec (conj C19_insert_spec C19_remove_spec))))))))))))))) in exact t).
Proof. exact (conj C19_chunk_panics (conj C19_chunk_spec (conj C19_chunk_ranges_props (conj C19_chunk_current_agrees (conj C19_chunk_negative_refuted (conj C19_chunk_overflow_refuted (conj C19_runs_spec (conj C19_runs_ranges_tile (conj C19_runs_of_props (conj C19_runs_of_transitive (conj C19_runs_refuted (conj C19_runs_current_agrees (conj C19_shrink_spec (conj C19_grow_spec (conj C19_insert_spec C19_remove_spec))))))))))))))). Qed.
Print Assumptions C19_xslices_chunk_runs_shrink_insert_remove.

(* ================================================================== xslices: All, Any, Index*, LastIndex*, Count*, Fill, Clear, Clone, Equal*, Join, Map, Reduce, Repeat, Group, Compact*, Filter* *)
Lemma C19_all_spec : forall f s, all f s = true <-> (forall x, In x s -> f x = true).
Proof. exact ProofsSlicesC.all_spec. Qed.

Lemma C19_any_spec : forall f s, any f s = true <-> (exists x, In x s /\ f x = true).
Proof. exact ProofsSlicesC.any_spec. Qed.

Lemma C19_index_func_spec : forall f s,
    let r := index_func f s in
    (r = -1 /\ forall x, In x s -> f x = false) \/
    (0 <= r < zlen s /\ f (znth s r) = true /\ forall j, 0 <= j < r -> f (znth s j) = false).
Proof. exact ProofsSlicesC.index_func_spec. Qed.

Lemma C19_index_spec : forall s v,
    let r := index s v in
    (r = -1 /\ ~ In v s) \/ (0 <= r < zlen s /\ znth s r = v /\ forall j, 0 <= j < r -> znth s j <> v).
Proof. exact ProofsSlicesC.index_spec. Qed.

Lemma C19_last_index_func_spec : forall f s,
    let r := last_index_func f s in
    (r = -1 /\ forall x, In x s -> f x = false) \/
    (0 <= r < zlen s /\ f (znth s r) = true /\ forall j, r < j < zlen s -> f (znth s j) = false).
Proof. exact ProofsSlicesC.last_index_func_spec. Qed.

Lemma C19_last_index_spec : forall s v,
    let r := last_index s v in
    (r = -1 /\ ~ In v s) \/ (0 <= r < zlen s /\ znth s r = v /\ forall j, r < j < zlen s -> znth s j <> v).
Proof. exact ProofsSlicesC.last_index_spec. Qed.

Lemma C19_count_func_spec : forall f s, count_func f s = zlen (filter f s).
Proof. exact ProofsSlicesC.count_func_spec. Qed.

Lemma C19_count_spec : forall s x, count s x = Z.of_nat (count_occ Z.eq_dec s x).
Proof. exact ProofsSlicesC.count_spec. Qed.

Lemma C19_fill_spec : forall s x, fill s x = zrepeat x (zlen s).
Proof. exact ProofsSlicesC.fill_spec. Qed.

Lemma C19_clear_spec : forall s, clear s = zeros (zlen s).
Proof. exact ProofsSlicesC.clear_spec. Qed.

Lemma C19_clone_spec : forall s, clone s = s.
Proof. exact ProofsSlicesC.clone_spec. Qed.

Lemma C19_equal_spec : forall a b, equal a b = true <-> a = b.
Proof. exact ProofsSlicesC.equal_spec. Qed.

Lemma C19_equal_func_spec : forall eq a b, equal_func eq a b = true <-> Forall2 (fun x y => eq x y = true) a b.
Proof. exact ProofsSlicesC.equal_func_spec. Qed.

Lemma C19_join_spec : forall ins, join ins = concat ins.
Proof. exact ProofsSlicesC.join_spec. Qed.

Lemma C19_map_spec : forall f s, map_ f s = map f s.
Proof. exact ProofsSlicesC.map_spec. Qed.

Lemma C19_reduce_spec : forall f s init, reduce f s init = fold_left f s init.
Proof. exact ProofsSlicesC.reduce_spec. Qed.

Lemma C19_repeat_spec : forall x n,
    (n < 0 -> repeat_ x n = Panic PNeg) /\
    (0 <= n -> repeat_ x n = Ok (repeat x (Z.to_nat n)) /\ zlen (repeat x (Z.to_nat n)) = n).
Proof. exact ProofsSlicesC.repeat_spec. Qed.

Lemma C19_group_spec : forall f s,
    map fst (group f s) = nub (map f s) /\
    (forall k l, In (k, l) (group f s) -> l = filter (fun x => f x =? k) s /\ l <> []).
Proof. exact ProofsSlicesC.group_spec. Qed.

Lemma C19_compact_in_place_func_spec : forall eq s,
    compact_in_place_func eq s = (compact_of eq s, compact_of eq s ++ zeros (zlen s - zlen (compact_of eq s))).
Proof. exact ProofsSlicesC.compact_in_place_func_spec. Qed.

Lemma C19_compact_func_spec : forall eq s, compact_func eq s = compact_of eq s.
Proof. exact ProofsSlicesC.compact_func_spec. Qed.

Lemma C19_compact_in_place_spec : forall s,
    compact_in_place s = (compact_of Z.eqb s, compact_of Z.eqb s ++ zeros (zlen s - zlen (compact_of Z.eqb s))).
Proof. exact ProofsSlicesC.compact_in_place_spec. Qed.

Lemma C19_compact_spec : forall s, compact s = compact_of Z.eqb s.
Proof. exact ProofsSlicesC.compact_spec. Qed.

Lemma C19_compact_of_eqb_props : forall s,
    (forall l1 a b l2, compact_of Z.eqb s = l1 ++ a :: b :: l2 -> a <> b) /\
    (forall x, In x (compact_of Z.eqb s) <-> In x s) /\
    hd_error (compact_of Z.eqb s) = hd_error s.
Proof. exact ProofsSlicesC.compact_of_eqb_props. Qed.

Lemma C19_filter_in_place_spec : forall keep s,
    filter_in_place keep s = (filter keep s, filter keep s ++ zeros (zlen s - zlen (filter keep s))).
Proof. exact ProofsSlicesC.filter_in_place_spec. Qed.

Lemma C19_filter_spec : forall keep s, filter_ keep s = filter keep s.
Proof. exact ProofsSlicesC.filter_spec. Qed.

(* the conjunction of the 25 statements above; the framework runs Print Assumptions on it *)
Theorem C19_xslices_simple_compact_filter : ltac:(let t := type of (conj C19_all_spec (conj C19_any_spec (conj C19_index_func_spec (conj C19_index_spec (conj C19_last_index_func_spec (conj C19_last_index_spec (conj C19_count_func_spec (conj C19_count_spec (conj C19_fill_spec (conj C19_clear_spec (conj C19_clone_spec (conj C19_equal_spec (conj C19_equal_func_spec (conj C19_join_spec (conj C19_map_spec (conj C19_reduce_spec (conj C19_repeat_spec (conj C19_group_spec (conj C19_compact_in_place_func_spec (conj C19_compact_func_spec (conj C19_compact_in_place_spec (conj C19_compact_spec (conj C19_compact_of_eqb_props (conj C19_filter_in_place_spec C19_filter_spec)))))))))))))))))))))))) in exact t).
Proof. exact (conj C19_all_spec (conj C19_any_spec (conj C19_index_func_spec (conj C19_index_spec (conj C19_last_index_func_spec (conj C19_last_index_spec (conj C19_count_func_spec (conj C19_count_spec (conj C19_fill_spec (conj C19_clear_spec (conj C19_clone_spec (conj C19_equal_spec (conj C19_equal_func_spec (conj C19_join_spec (conj C19_map_spec (conj C19_reduce_spec (conj C19_repeat_spec (conj C19_group_spec (conj C19_compact_in_place_func_spec (conj C19_compact_func_spec (conj C19_compact_in_place_spec (conj C19_compact_spec (conj C19_compact_of_eqb_props (conj C19_filter_in_place_spec C19_filter_spec)))))))))))))))))))))))). Qed.
Print Assumptions C19_xslices_simple_compact_filter.

(* ================================================================== xsort: comparators, SliceIsSorted, SliceStable, Slice, Search, Merge, MergeSlices, MinK (any strict weak order, ties included) *)
Lemma C19_greater_spec : forall less a b, greater less a b = less b a.
Proof. exact ProofsSort.greater_spec. Qed.

Lemma C19_less_or_equal_spec : forall less a b, less_or_equal less a b = negb (less b a).
Proof. exact ProofsSort.less_or_equal_spec. Qed.

Lemma C19_greater_or_equal_spec : forall less a b, greater_or_equal less a b = negb (less a b).
Proof. exact ProofsSort.greater_or_equal_spec. Qed.

Lemma C19_equal_spec_ : forall less a b, equal_ less a b = true <-> (less a b = false /\ less b a = false).
Proof. exact ProofsSort.equal_spec_. Qed.

Lemma C19_reverse_less_spec : forall less, strict_weak less -> strict_weak (reverse_less less) /\
    (forall a b, reverse_less less a b = less b a).
Proof. exact ProofsSort.reverse_less_spec. Qed.

Lemma C19_less_compare_spec : forall less a b, strict_weak less ->
    (less_compare less a b = -1 <-> less a b = true) /\
    (less_compare less a b = 1 <-> less b a = true) /\
    (less_compare less a b = 0 <-> (less a b = false /\ less b a = false)) /\
    less_compare less b a = - less_compare less a b.
Proof. exact ProofsSort.less_compare_spec. Qed.

Lemma C19_ordered_less_spec : forall a b, ordered_less a b = true <-> a < b.
Proof. exact ProofsSort.ordered_less_spec. Qed.

Lemma C19_slice_is_sorted_adjacent : forall less x,
    slice_is_sorted less x = true <-> (forall i, 0 < i < zlen x -> less (znth x i) (znth x (i - 1)) = false).
Proof. exact ProofsSort.slice_is_sorted_adjacent. Qed.

Lemma C19_slice_is_sorted_spec : forall less x, strict_weak less ->
    (slice_is_sorted less x = true <-> nondecreasing less x).
Proof. exact ProofsSort.slice_is_sorted_spec. Qed.

(* SliceStable / Slice (wrappers over sort.SliceStable / sort.Slice).  [slice_stable] is the model
   of SliceStable; for EVERY strict weak order - ties included - its result is a permutation of
   the input, no later item is less than an earlier one, and the items of every class of
   equivalent items ([equal_ less p]) are in the order they had in the input.  These three
   facts determine the result: C19_slice_stable_unique says that ANY list with the last two
   properties is the model's output (and therefore a permutation of the input), so nothing
   about the sorting algorithm is left open.  Slice is not stable: [slice_allowed less x out]
   (out has the items of slice_stable less x and is equivalent to it position by position) holds
   exactly of the sorted permutations of x. *)
Lemma C19_slice_stable_perm : forall less x, Permutation (slice_stable less x) x.
Proof. exact ProofsSort.slice_stable_perm. Qed.

Lemma C19_slice_stable_sorted : forall less x, strict_weak less ->
    nondecreasing less (slice_stable less x).
Proof. exact ProofsSort.slice_stable_sorted. Qed.

Lemma C19_slice_stable_stable : forall less x, strict_weak less ->
    forall p, filter (equal_ less p) (slice_stable less x) = filter (equal_ less p) x.
Proof. exact ProofsSort.slice_stable_stable. Qed.

Lemma C19_slice_stable_unique : forall less x out, strict_weak less ->
    nondecreasing less out ->
    (forall p, filter (equal_ less p) out = filter (equal_ less p) x) ->
    out = slice_stable less x.
Proof. exact ProofsSort.slice_stable_unique. Qed.

Lemma C19_slice_stable_unique_perm : forall less x out, strict_weak less ->
    nondecreasing less out ->
    (forall p, filter (equal_ less p) out = filter (equal_ less p) x) ->
    Permutation out x.
Proof. exact ProofsSort.stable_rearrangement_is_permutation. Qed.

Lemma C19_slice_spec : forall less x out, strict_weak less ->
    (slice_allowed less x out = true <-> (Permutation out x /\ nondecreasing less out)).
Proof. exact ProofsSort.slice_spec. Qed.

Lemma C19_slice_stable_allowed : forall less x, strict_weak less ->
    slice_allowed less x (slice_stable less x) = true.
Proof. exact ProofsSort.slice_stable_allowed. Qed.

Lemma C19_search_contract : forall less x item,
    let f := fun i => less item (znth x i) || negb (less (znth x i) item) in
    let r := search less x item in
    0 <= r <= zlen x /\ (r < zlen x -> f r = true) /\ (0 < r -> f (r - 1) = false).
Proof. exact ProofsSort.search_contract. Qed.

Lemma C19_search_spec : forall less x item, strict_weak less -> nondecreasing less x ->
    let r := search less x item in
    0 <= r <= zlen x /\
    (forall i, 0 <= i < r -> less (znth x i) item = true) /\
    (forall i, r <= i < zlen x -> less (znth x i) item = false).
Proof. exact ProofsSort.search_spec. Qed.

Lemma C19_merge_spec : forall less ins, strict_weak less ->
    exists out, merge less ins = Ok out /\
                Permutation out (join ins) /\
                ((forall l, In l ins -> nondecreasing less l) -> nondecreasing less out).
Proof. exact ProofsSort.merge_spec. Qed.

Lemma C19_merge_slices_spec : forall less outcap ins, strict_weak less ->
    exists out, merge_slices less outcap ins = Ok (out, (0 <? zlen (join ins)) && (zlen (join ins) <=? outcap)) /\
                Permutation out (join ins) /\
                ((forall l, In l ins -> nondecreasing less l) -> nondecreasing less out).
Proof. exact ProofsSort.merge_slices_spec. Qed.

Lemma C19_min_k_spec : forall less items k, strict_weak less ->
    exists out rest, min_k less items k = Ok out /\
                zlen out = Z.min (Z.max k 0) (zlen items) /\
                nondecreasing less out /\
                Permutation (out ++ rest) items /\
                (forall o r, In o out -> In r rest -> less r o = false).
Proof. exact ProofsSort.min_k_spec. Qed.

(* the conjunction of the 21 statements above; the framework runs Print Assumptions on it *)
Theorem C19_xsort : ltac:(let t := type of (conj C19_greater_spec (conj C19_less_or_equal_spec (conj C19_greater_or_equal_spec (conj C19_equal_spec_ (conj C19_reverse_less_spec (conj C19_less_compare_spec (conj C19_ordered_less_spec (conj C19_slice_is_sorted_adjacent (conj C19_slice_is_sorted_spec (conj C19_slice_stable_perm (conj C19_slice_stable_sorted (conj C19_slice_stable_stable (conj C19_slice_stable_unique (conj C19_slice_stable_unique_perm (conj C19_slice_spec (conj C19_slice_stable_allowed (conj C19_search_contract (conj C19_search_spec (conj C19_merge_spec (conj C19_merge_slices_spec C19_min_k_spec)))))))))))))))))))) in exact t).
Proof. exact (conj C19_greater_spec (conj C19_less_or_equal_spec (conj C19_greater_or_equal_spec (conj C19_equal_spec_ (conj C19_reverse_less_spec (conj C19_less_compare_spec (conj C19_ordered_less_spec (conj C19_slice_is_sorted_adjacent (conj C19_slice_is_sorted_spec (conj C19_slice_stable_perm (conj C19_slice_stable_sorted (conj C19_slice_stable_stable (conj C19_slice_stable_unique (conj C19_slice_stable_unique_perm (conj C19_slice_spec (conj C19_slice_stable_allowed (conj C19_search_contract (conj C19_search_spec (conj C19_merge_spec (conj C19_merge_slices_spec C19_min_k_spec)))))))))))))))))))). Qed.
Print Assumptions C19_xsort.

(* ================================================================== xmaps: sets and maps by membership/lookup, for every iteration order of the inputs *)
Lemma C19_set_from_slice_spec : forall items,
    NoDup (set_from_slice items) /\ (forall k, In k (set_from_slice items) <-> In k items).
Proof. exact ProofsMaps.set_from_slice_spec. Qed.

Lemma C19_set_add_spec : forall s k, NoDup s -> NoDup (set_add s k) /\ (forall x, In x (set_add s k) <-> x = k \/ In x s).
Proof. exact ProofsMaps.set_add_spec. Qed.

Lemma C19_set_remove_spec : forall s k, NoDup s -> NoDup (set_remove s k) /\ (forall x, In x (set_remove s k) <-> x <> k /\ In x s).
Proof. exact ProofsMaps.set_remove_spec. Qed.

Lemma C19_set_contains_spec : forall s k, set_contains s k = true <-> In k s.
Proof. exact ProofsMaps.set_contains_spec. Qed.

Lemma C19_union_spec : forall sets,
    NoDup (union sets) /\ (forall k, In k (union sets) <-> exists s, In s sets /\ In k s).
Proof. exact ProofsMaps.union_spec. Qed.

Lemma C19_intersection_spec : forall sets,
    NoDup (intersection sets) /\
    (sets = [] -> intersection sets = []) /\
    (sets <> [] -> forall k, In k (intersection sets) <-> (forall s, In s sets -> In k s)).
Proof. exact ProofsMaps.intersection_spec. Qed.

Lemma C19_intersects_spec : forall sets,
    intersects sets = true <-> (sets <> [] /\ exists k, forall s, In s sets -> In k s).
Proof. exact ProofsMaps.intersects_spec. Qed.

Lemma C19_difference_spec : forall a b,
    NoDup (difference a b) /\ (forall k, In k (difference a b) <-> In k a /\ ~ In k b).
Proof. exact ProofsMaps.difference_spec. Qed.

Lemma C19_union_order_independent : forall sets sets', Forall2 (@Permutation Z) sets sets' ->
    forall k, In k (union sets) <-> In k (union sets').
Proof. exact ProofsMaps.union_order_independent. Qed.

Lemma C19_intersection_order_independent : forall sets sets', Forall2 (@Permutation Z) sets sets' ->
    forall k, In k (intersection sets) <-> In k (intersection sets').
Proof. exact ProofsMaps.intersection_order_independent. Qed.

Lemma C19_reverse_map_spec : forall m, is_map m ->
    NoDup (map fst (reverse_map m)) /\
    (forall v l, In (v, l) (reverse_map m) -> l <> [] /\ NoDup l /\ forall k, In k l <-> In (k, v) m) /\
    (forall k v, In (k, v) m -> exists l, In (v, l) (reverse_map m)).
Proof. exact ProofsMaps.reverse_map_spec. Qed.

Lemma C19_reverse_single_spec : forall m r ok, is_map m -> reverse_single m = (r, ok) ->
    is_map r /\
    (ok = true <-> NoDup (map snd m)) /\
    (forall v k, mget r v = Some k -> In (k, v) m) /\
    (forall k v, In (k, v) m -> exists k', mget r v = Some k').
Proof. exact ProofsMaps.reverse_single_spec. Qed.

Lemma C19_to_index_spec : forall keys,
    is_map (to_index keys) /\
    (forall k i, mget (to_index keys) k = Some i ->
        0 <= i < zlen keys /\ znth keys i = k /\ forall j, i < j < zlen keys -> znth keys j <> k) /\
    (forall k, In k keys -> exists i, mget (to_index keys) k = Some i).
Proof. exact ProofsMaps.to_index_spec. Qed.

Lemma C19_from_keys_and_values_spec : forall keys values,
    (zlen keys <> zlen values -> exists c, from_keys_and_values keys values = Panic c) /\
    (zlen keys = zlen values -> exists m ok, from_keys_and_values keys values = Ok (m, ok) /\
        is_map m /\ (ok = true <-> NoDup keys) /\
        (forall k v, mget m k = Some v ->
            exists i, 0 <= i < zlen keys /\ znth keys i = k /\ znth values i = v /\
                      forall j, i < j < zlen keys -> znth keys j <> k) /\
        (forall k, In k keys -> exists v, mget m k = Some v)).
Proof. exact ProofsMaps.from_keys_and_values_spec. Qed.

(* the conjunction of the 21 statements above; the framework runs Print Assumptions on it *)
Theorem C19_xmaps : ltac:(let t := type of (conj C19_set_from_slice_spec (conj C19_set_add_spec (conj C19_set_remove_spec (conj C19_set_contains_spec (conj C19_union_spec (conj C19_intersection_spec (conj C19_intersects_spec (conj C19_difference_spec (conj C19_union_order_independent (conj C19_intersection_order_independent (conj C19_reverse_map_spec (conj C19_reverse_single_spec (conj C19_to_index_spec C19_from_keys_and_values_spec))))))))))))) in exact t).
Proof. exact (conj C19_set_from_slice_spec (conj C19_set_add_spec (conj C19_set_remove_spec (conj C19_set_contains_spec (conj C19_union_spec (conj C19_intersection_spec (conj C19_intersects_spec (conj C19_difference_spec (conj C19_union_order_independent (conj C19_intersection_order_independent (conj C19_reverse_map_spec (conj C19_reverse_single_spec (conj C19_to_index_spec C19_from_keys_and_values_spec))))))))))))). Qed.
Print Assumptions C19_xmaps.

(* ================================================================== xmath: Abs (w-bit two's complement), Min, Max, Clamp;  xerrors: WithStack *)
Lemma C19_abs_spec : forall w x, 1 <= w -> in_range w x ->
    (x = - 2 ^ (w - 1) -> abs_w w x = Panic POther) /\
    (x <> - 2 ^ (w - 1) -> abs_w w x = Ok (Z.abs x) /\ in_range w (Z.abs x)).
Proof. exact ProofsMisc.abs_spec. Qed.

Lemma C19_abs_wrap_min : forall w, 1 <= w -> wrap w (- (- 2 ^ (w - 1))) = - 2 ^ (w - 1).
Proof. exact ProofsMisc.abs_wrap_min. Qed.

Lemma C19_min_spec : forall a b, min_ a b = Z.min a b.
Proof. exact ProofsMisc.min_spec. Qed.

Lemma C19_max_spec : forall a b, max_ a b = Z.max a b.
Proof. exact ProofsMisc.max_spec. Qed.

Lemma C19_clamp_spec : forall x lo hi, lo <= hi ->
    clamp x lo hi = Z.max lo (Z.min x hi) /\ lo <= clamp x lo hi <= hi /\ (lo <= x <= hi -> clamp x lo hi = x).
Proof. exact ProofsMisc.clamp_spec. Qed.

Lemma C19_clamp_unordered : forall x lo hi, hi < lo -> clamp x lo hi = (if x <? lo then lo else hi).
Proof. exact ProofsMisc.clamp_unordered. Qed.

Lemma C19_with_stack_nil : forall b, with_stack b None = None.
Proof. exact ProofsMisc.with_stack_nil. Qed.

Lemma C19_with_stack_unwrap : forall b e e', with_stack b (Some e) = Some e' ->
    e' = e \/ (e' = EStack e /\ unwrap e' = Some e).
Proof. exact ProofsMisc.with_stack_unwrap. Qed.

Lemma C19_with_stack_wraps : forall e, has_stack e = false -> with_stack true (Some e) = Some (EStack e).
Proof. exact ProofsMisc.with_stack_wraps. Qed.

Lemma C19_with_stack_current_always_wraps : forall e, with_stack false (Some e) = Some (EStack e).
Proof. exact ProofsMisc.with_stack_current_always_wraps. Qed.

Lemma C19_with_stack_is : forall b e e' t, with_stack b (Some e) = Some e' -> is_ e' t = is_ e t.
Proof. exact ProofsMisc.with_stack_is. Qed.

Lemma C19_with_stack_has_stack : forall e, has_stack e = true -> with_stack true (Some e) = Some e.
Proof. exact ProofsMisc.with_stack_has_stack. Qed.

Lemma C19_with_stack_idempotent : forall e, with_stack true (with_stack true e) = with_stack true e.
Proof. exact ProofsMisc.with_stack_idempotent. Qed.

Lemma C19_with_stack_result_has_stack : forall b e e', with_stack b (Some e) = Some e' -> has_stack e' = true.
Proof. exact ProofsMisc.with_stack_result_has_stack. Qed.

Lemma C19_with_stack_idempotent_refuted : exists e, with_stack false (with_stack false e) <> with_stack false e.
Proof. exact ProofsMisc.with_stack_idempotent_refuted. Qed.

Lemma C19_with_stack_has_stack_refuted : exists e, has_stack e = true /\ with_stack false (Some e) <> Some e.
Proof. exact ProofsMisc.with_stack_has_stack_refuted. Qed.

(* the conjunction of the 16 statements above; the framework runs Print Assumptions on it *)
Theorem C19_xmath_xerrors : ltac:(let t := type of (conj C19_abs_spec (conj C19_abs_wrap_min (conj C19_min_spec (conj C19_max_spec (conj C19_clamp_spec (conj C19_clamp_unordered (conj C19_with_stack_nil (conj C19_with_stack_unwrap (conj C19_with_stack_wraps (conj C19_with_stack_current_always_wraps (conj C19_with_stack_is (conj C19_with_stack_has_stack (conj C19_with_stack_idempotent (conj C19_with_stack_result_has_stack (conj C19_with_stack_idempotent_refuted C19_with_stack_has_stack_refuted))))))))))))))) in exact t).
Proof. exact (conj C19_abs_spec (conj C19_abs_wrap_min (conj C19_min_spec (conj C19_max_spec (conj C19_clamp_spec (conj C19_clamp_unordered (conj C19_with_stack_nil (conj C19_with_stack_unwrap (conj C19_with_stack_wraps (conj C19_with_stack_current_always_wraps (conj C19_with_stack_is (conj C19_with_stack_has_stack (conj C19_with_stack_idempotent (conj C19_with_stack_result_has_stack (conj C19_with_stack_idempotent_refuted C19_with_stack_has_stack_refuted))))))))))))))). Qed.
Print Assumptions C19_xmath_xerrors.

(* ================================================================== xmath/xrand over an arbitrary oracle: structure of samples, Shuffle, reachability of every subset *)
Lemma C19_shuffle_permutation : forall sw a b, shuffle sw a = Ok b -> Permutation a b /\ zlen b = zlen a.
Proof. exact ProofsRand.shuffle_permutation. Qed.

Lemma C19_shuffle_total : forall sw a,
    (forall i j, In (i, j) sw -> 0 <= i < zlen a /\ 0 <= j < zlen a) -> exists b, shuffle sw a = Ok b.
Proof. exact ProofsRand.shuffle_total. Qed.

Lemma C19_sample_structure : forall o sw n k res, 0 <= k -> 0 <= n <= max_int -> oracle_ok o k ->
    rsample o sw n k = Ok res -> zlen res = Z.min k n /\ positions_ok n res.
Proof. exact ProofsRand.rsample_structure. Qed.

Lemma C19_rsample_total : forall o sw n k, 0 <= k -> 0 <= n <= max_int -> oracle_ok o k ->
    (forall i j, In (i, j) sw -> 0 <= i < Z.min k n /\ 0 <= j < Z.min k n) ->
    exists res, rsample o sw n k = Ok res.
Proof. exact ProofsRand.rsample_total. Qed.

Lemma C19_rsample_negative_k : forall o sw n k, k < 0 -> rsample o sw n k = Panic PNeg.
Proof. exact ProofsRand.rsample_negative_k. Qed.

Lemma C19_rsample_slice_positions : forall o sw a k ps, 0 <= k -> zlen a <= max_int -> oracle_ok o k ->
    rsample o sw (zlen a) k = Ok ps ->
    rsample_slice o sw a k = Ok (map (znth a) ps).
Proof. exact ProofsRand.rsample_slice_positions. Qed.

Lemma C19_rsample_iterator_eq_slice : forall o sw items k, 0 <= k -> zlen items <= max_int -> oracle_ok o k ->
    rsample_iterator o sw items k = rsample_slice o sw items k.
Proof. exact ProofsRand.rsample_iterator_eq_slice. Qed.

Lemma C19_rsample_slice_structure : forall o sw a k res, 0 <= k -> zlen a <= max_int -> oracle_ok o k ->
    rsample_slice o sw a k = Ok res ->
    exists ps, res = map (znth a) ps /\ zlen ps = Z.min k (zlen a) /\ positions_ok (zlen a) ps.
Proof. exact ProofsRand.rsample_slice_structure. Qed.

Lemma C19_sample_support_partial : forall n k S, 0 <= k <= n -> n <= max_int -> positions_ok n S -> zlen S = k ->
    exists o res, oracle_ok o k /\ rsample o [] n k = Ok res /\ Permutation res S.
Proof. exact ProofsRand.rsample_support_partial. Qed.

(* the conjunction of the 9 statements above; the framework runs Print Assumptions on it *)
Theorem C19_xrand : ltac:(let t := type of (conj C19_shuffle_permutation (conj C19_shuffle_total (conj C19_sample_structure (conj C19_rsample_total (conj C19_rsample_negative_k (conj C19_rsample_slice_positions (conj C19_rsample_iterator_eq_slice (conj C19_rsample_slice_structure C19_sample_support_partial)))))))) in exact t).
Proof. exact (conj C19_shuffle_permutation (conj C19_shuffle_total (conj C19_sample_structure (conj C19_rsample_total (conj C19_rsample_negative_k (conj C19_rsample_slice_positions (conj C19_rsample_iterator_eq_slice (conj C19_rsample_slice_structure C19_sample_support_partial)))))))). Qed.
Print Assumptions C19_xrand.

(* ---- the configuration selected in Pure/Config.v (what Pure/Corr.v runs against the code) ---- *)
Lemma C19_chunk_shipped : xslices_chunk_guard = true -> xslices_chunk_no_overflow = true ->
    forall s c, (c <= 0 -> chunk xslices_chunk_guard xslices_chunk_no_overflow s c = Panic PNeg) /\
                (0 < c -> chunk xslices_chunk_guard xslices_chunk_no_overflow s c = Ok (chunk_ranges (zlen s) c)).
Proof.
  intros H1 H2 s c. rewrite H1, H2. split; [exact (ProofsSlicesB.chunk_panics s c)|exact (ProofsSlicesB.chunk_spec s c)].
Qed.

Lemma C19_runs_shipped : xslices_runs_fixed = true ->
    forall s same, map (slice_of s) (runs xslices_runs_fixed s same) = runs_of same s.
Proof. intros H s same. rewrite H. exact (ProofsSlicesB.runs_spec s same). Qed.

Lemma C19_with_stack_shipped : xerrors_withstack_idempotent = true ->
    forall e, with_stack xerrors_withstack_idempotent (with_stack xerrors_withstack_idempotent e) =
              with_stack xerrors_withstack_idempotent e.
Proof. intros H e. rewrite H. exact (ProofsMisc.with_stack_idempotent e). Qed.


Theorem C19_shipped_configuration :
  ltac:(let t := type of (conj C19_chunk_shipped (conj C19_runs_shipped C19_with_stack_shipped)) in exact t).
Proof. exact (conj C19_chunk_shipped (conj C19_runs_shipped C19_with_stack_shipped)). Qed.
Print Assumptions C19_shipped_configuration.

(* ---- translator tie: Clamp, Abs and the xsort comparison helpers, translated literally from the Go source
        on every run (Generated/Funcs.v), are the definitions the models use ---- *)
From Juniper Require Import Generated.Funcs Translated.FuncsOK.

Theorem C19_translated_helpers :
  (forall x lo hi, go_Clamp x lo hi = clamp x lo hi) /\
  (forall w x, go_Abs (fun y => wrap w (- y)) x = abs_w w x) /\
  (forall less a b, go_Greater less a b = greater less a b) /\
  (forall less a b, go_LessOrEqual less a b = less_or_equal less a b) /\
  (forall less a b, go_GreaterOrEqual less a b = greater_or_equal less a b) /\
  (forall less a b, go_Equal less a b = equal_ less a b).
Proof.
  exact (conj go_Clamp_ok (conj go_Abs_ok (conj go_Greater_ok (conj go_LessOrEqual_ok (conj go_GreaterOrEqual_ok go_Equal_ok))))).
Qed.

Print Assumptions C19_translated_helpers.
