(* C12 — chans.Merge and stream.Merge output an interleaving of their inputs (the same multiset of values,
   each input's order preserved) for any number of inputs, chans.Replicate delivers the whole source in order
   to every destination; each finishes exactly when all inputs are exhausted and everything has been
   delivered.  stream.Merge reports the first error of any input.  After its output has been closed, the
   goroutines it started finish without needing further input.

   Only statements live here; each is closed by [exact] of a lemma proved in Conc/MergeProofs.v.
   Models: Conc/Merge.v.  [CM] = chans.Merge / chans.Replicate with producer threads (one per input channel,
   executing send/close commands), consumer threads (one per output channel) and the library call as one
   thread; [init_merge incaps outcap] selects the code path from [length incaps] exactly as chans.Merge does
   (1: range loop, 2: merge2, 3: merge3, otherwise - 0 included - the reflect.Select loop with
   xslices.RemoveUnordered).  [SM] = stream.Merge with one worker per input, the unbuffered pipe and the
   consumer.  All statements quantify over ALL reachable states of ALL scenarios: any capacities, any values,
   any command sequences / scripts / error positions, any schedule (a run is any sequence of labels).

   Reading guide (ghost history kept in the state):
     CM: [gots s] per input: values the call has received; [out_seq s j] per output: (input, value) pairs the
         call has sent; [hand s]: the value the call holds; [produced s] per input: values whose send
         completed; [taken s] per output: values its consumer received; [from k l] = values of l tagged k.
     SM: [recvd s]: (input, value) pairs the consumer received; [s_out x]: items input x has yielded;
         [held p]: the item a worker holds inside Send; [winners s]: workers that won the closeOnce CAS;
         [results s]: results returned by the consumer's Next calls; [serr s] = *senderErr. *)
From Juniper Require Import Common.Base Conc.GoLTS Conc.Merge Conc.MergeProofs.
Local Open Scope nat_scope.

(* ------------------------------------------------------------------------------------------------ *)
(* chans.Merge *)

(* every arity: the values sent on out so far plus the value in hand, restricted to input k, are exactly the
   values received from input k so far, in order; nothing is lost or duplicated in the channels either *)
Theorem C12_chans_interleaving : forall incaps outcap s,
    reachable CM.qstep (CM.init_merge incaps outcap) s ->
    forall k, k < length incaps ->
      CMP.from k (CMP.out_seq s 0 ++ CMP.hand s) = nth k (CM.gots s) []
      /\ nth k (CM.produced s) [] = nth k (CM.gots s) [] ++ CM.buf (CMP.chn s k)
      /\ CMP.vals s 0 = nth 0 (CM.taken s) [] ++ CM.buf (CMP.chn s (length incaps))
      /\ Forall (fun p => fst p < length incaps) (CMP.out_seq s 0).
Proof. exact CMP.chans_interleaving. Qed.

(* ... hence the output is a permutation of everything received (same multiset) *)
Theorem C12_chans_multiset : forall incaps outcap s,
    reachable CM.qstep (CM.init_merge incaps outcap) s ->
    Permutation.Permutation (map snd (CMP.out_seq s 0 ++ CMP.hand s)) (concat (CM.gots s)).
Proof. exact CMP.chans_multiset. Qed.

(* "returns iff every input is closed and everything received has been sent".
   Safety direction: about to return / returned only if every input is closed and drained and everything ever
   sent into an input has been sent on out. *)
Theorem C12_chans_terminates : forall incaps outcap s,
    reachable CM.qstep (CM.init_merge incaps outcap) s ->
    CMP.ret_pc (CM.pc s) = true ->
    forall k, k < length incaps ->
      CM.closed (CMP.chn s k) = true /\ CM.buf (CMP.chn s k) = []
      /\ nth k (CM.produced s) [] = CMP.from k (CMP.out_seq s 0).
Proof. exact CMP.chans_returned_only_when_done. Qed.

(* Progress: while the call is running, one of its own steps (receive/select arm, send, exit, return) is
   enabled, or it waits for an input that is open and empty (that input's producer must send or close), or it
   waits for room in out (the consumer must receive). *)
Theorem C12_chans_terminates_progress : forall incaps outcap s,
    reachable CM.qstep (CM.init_merge incaps outcap) s ->
    CM.pc s <> CM.LInit -> CM.pc s <> CM.LDone ->
    CMP.lib_enabled s \/ CMP.waits_for_input s \/ CMP.waits_for_output s.
Proof. exact CMP.chans_progress. Qed.

(* Once every input is closed the call needs nobody else: at the loop head (or about to return) one of its own
   steps is enabled - it drains the buffers, observes the closes and returns.  With zero inputs (the reflect
   path) this holds from the start: the call returns immediately (see the Example below). *)
Theorem C12_chans_terminates_when_done : forall incaps outcap s,
    reachable CM.qstep (CM.init_merge incaps outcap) s ->
    CM.pc s = CM.LLoop \/ CM.pc s = CM.LRetp ->
    (forall k, k < length incaps -> CM.closed (CMP.chn s k) = true) ->
    CMP.lib_enabled s.
Proof. exact CMP.chans_returns_when_done. Qed.

(* Variant: every step of the call itself (a receive/select arm, a send on out, the exit test, the return)
   strictly decreases [CMV.measure] = (nout + 3) * (values buffered in the inputs or still queued at their
   producers) + inputs not yet observed closed + what is left of the current delivery + distance to the return:
   the call cannot spin or run forever on its own; together with the progress statements it returns once the
   producers have closed everything and the consumer keeps receiving. *)
Theorem C12_chans_terminates_variant : forall incaps outcap s l s',
    reachable CM.qstep (CM.init_merge incaps outcap) s -> CMV.lib_label l -> CM.step s l = Some s' ->
    CMV.measure s' < CMV.measure s.
Proof. exact CMV.chans_variant. Qed.

(* ------------------------------------------------------------------------------------------------ *)
(* chans.Replicate *)
Theorem C12_replicate : forall srccap dstcaps s,
    reachable CM.qstep (CM.init_replicate srccap dstcaps) s ->
    let got := nth 0 (CM.gots s) [] in
    nth 0 (CM.produced s) [] = got ++ CM.buf (CMP.chn s 0)
    /\ (forall j, j < length dstcaps ->
         (match CM.pc s with
          | CM.LHand _ v j0 => exists g0, got = g0 ++ [v] /\ CMP.vals s j = if Nat.ltb j j0 then got else g0
          | _ => CMP.vals s j = got
          end)
         /\ CMP.vals s j = nth j (CM.taken s) [] ++ CM.buf (CMP.chn s (1 + j)))
    /\ (CMP.ret_pc (CM.pc s) = true ->
        CM.closed (CMP.chn s 0) = true /\ CM.buf (CMP.chn s 0) = []
        /\ forall j, j < length dstcaps -> CMP.vals s j = nth 0 (CM.produced s) []).
Proof. exact CMP.replicate_correct. Qed.

Theorem C12_replicate_progress : forall srccap dstcaps s,
    reachable CM.qstep (CM.init_replicate srccap dstcaps) s ->
    CM.pc s <> CM.LInit -> CM.pc s <> CM.LDone ->
    CMP.lib_enabled s \/ CMP.waits_for_input s \/ CMP.waits_for_output s.
Proof. exact CMP.replicate_progress. Qed.

Theorem C12_replicate_variant : forall srccap dstcaps s l s',
    reachable CM.qstep (CM.init_replicate srccap dstcaps) s -> CMV.lib_label l -> CM.step s l = Some s' ->
    CMV.measure s' < CMV.measure s.
Proof. exact CMV.replicate_variant. Qed.

(* ------------------------------------------------------------------------------------------------ *)
(* stream.Merge *)

(* per input i: what the consumer received from i followed by the item worker i holds is a prefix of what
   input i yielded, in order (no duplicates, no reordering, no foreign values); and nothing at all is dropped
   as long as no input has failed (closeOnce = 0) and the output has not been closed *)
Theorem C12_stream_interleaving : forall scripts prog nctx s,
    reachable SM.qstep (SM.init scripts prog nctx) s ->
    Forall (fun p => fst p < length scripts) (SM.recvd s)
    /\ forall i p x, nth_error (SM.ws s) i = Some p -> nth_error (SM.srcs s) i = Some x ->
         (exists d, SM.s_out x = SMP.from i (SM.recvd s) ++ SMP.held p ++ d)
         /\ (SM.once s = false -> SM.rdone s = false -> SM.s_out x = SMP.from i (SM.recvd s) ++ SMP.held p).
Proof. exact SMP.stream_interleaving. Qed.

(* End is reported only when every input has ended (script exhausted, final = End) and everything the inputs
   yielded has been received ... *)
Theorem C12_stream_end_when_all_done : forall scripts prog nctx s,
    reachable SM.qstep (SM.init scripts prog nctx) s -> In SM.NEnd (SMP.results s) ->
    forall i x, nth_error (SM.srcs s) i = Some x ->
      SM.s_items x = [] /\ SM.s_fin x = None /\ SM.s_out x = SMP.from i (SM.recvd s).
Proof. exact SMP.stream_end_only_when_done. Qed.

(* ... with zero inputs at once ... *)
Theorem C12_stream_end_zero_inputs : forall prog nctx s c s',
    reachable SM.qstep (SM.init [] prog nctx) s -> SM.step s (SM.LCallNext c) = Some s' ->
    SM.kpc_ s' = SM.KRet SM.NEnd.
Proof. exact SMP.stream_zero_inputs_end_at_once. Qed.

(* ... and it is not withheld: while the consumer is blocked in Next some worker goroutine is still running and
   has an enabled step or is waiting inside its input's Next *)
Theorem C12_stream_end_progress : forall scripts prog nctx s c,
    reachable SM.qstep (SM.init scripts prog nctx) s -> SM.kpc_ s = SM.KNextParked c ->
    exists i p, nth_error (SM.ws s) i = Some p /\ p <> SM.WExited
                /\ (SMP.worker_can_step s i \/ SMP.waits_for_source s i).
Proof. exact SMP.stream_next_progress. Qed.

(* the error the consumer sees is the one stored by the unique worker that won the closeOnce CAS; the sender is
   closed at most once (no double-close panic) *)
Theorem C12_first_error : forall scripts prog nctx s,
    reachable SM.qstep (SM.init scripts prog nctx) s ->
    (forall z, In (SM.NErr (SM.EScr z)) (SMP.results s) ->
               SM.serr s = Some (SM.EScr z) /\ exists i, SM.winners s = [(i, SM.EScr z)])
    /\ length (SM.winners s) <= 1 /\ SM.sclosed s <= 1
    /\ (forall i, nth_error (SM.ws s) i <> Some SM.WPanic)
    /\ (forall e, SM.serr s = Some e -> SM.sdone s = true /\ exists i, SM.winners s = [(i, e)]).
Proof. exact SMP.stream_first_error. Qed.

(* later errors are dropped: a closed pipe keeps its error, and a worker that loses the CAS changes nothing *)
Theorem C12_first_error_sticky : forall s l s',
    SM.step s l = Some s' -> SM.sdone s = true -> SM.sdone s' = true /\ SM.serr s' = SM.serr s.
Proof. exact SMP.stream_error_sticky. Qed.

Theorem C12_later_errors_dropped : forall s i s',
    SM.step s (SM.TCas i) = Some s' -> SM.once s = true ->
    SM.serr s' = SM.serr s /\ SM.sdone s' = SM.sdone s /\ SM.winners s' = SM.winners s /\ SM.ctx s' = SM.ctx s.
Proof. exact SMP.stream_lost_cas_drops_error. Qed.

(* after Close of the output is invoked: its own two steps are enabled; then (in wg.Wait) every worker that has
   not finished has an enabled step - under the assumption built into the model that an input's Next returns
   once the shared context is cancelled - and Wait returns when they are gone; every input is closed at most
   once at any time and exactly once, with every worker gone, when Close returns *)
Theorem C12_workers_exit_after_close : forall scripts prog nctx s,
    reachable SM.qstep (SM.init scripts prog nctx) s ->
    (SM.kpc_ s = SM.KClose1 -> SM.enabled s SM.TKClose1 = true)
    /\ (SM.kpc_ s = SM.KClose2 -> SM.enabled s SM.TKClose2 = true)
    /\ (SM.kpc_ s = SM.KWait ->
        (forall i p, nth_error (SM.ws s) i = Some p -> p <> SM.WExited -> SMP.worker_can_step s i)
        /\ ((forall i p, nth_error (SM.ws s) i = Some p -> p = SM.WExited) -> SM.enabled s SM.TKWait = true))
    /\ (forall i p x, nth_error (SM.ws s) i = Some p -> nth_error (SM.srcs s) i = Some x ->
                      SM.s_closes x = SMP.closed_in p)
    /\ (SM.kpc_ s = SM.KCloseRet \/ (SM.kpc_ s = SM.KIdle /\ SM.rdone s = true) ->
        forall i p x, nth_error (SM.ws s) i = Some p -> nth_error (SM.srcs s) i = Some x ->
                      p = SM.WExited /\ SM.s_closes x = 1).
Proof. exact SMP.stream_workers_exit_after_close. Qed.

(* Variant: every step of a worker (internal, or an up-call into its input) strictly decreases
   [SMP.measure] = sum of the workers' distances to their exit + 20 * (Next calls the inputs may still answer
   with an item): no worker can run forever without the environment releasing more input, so with the
   progress statement above every worker finishes after Close. *)
Theorem C12_workers_exit_variant : forall s i l s',
    In l (SM.worker_taus i) \/ (exists r, l = SM.LSrcExit i r) \/ l = SM.LSrcEnter i \/ l = SM.LSrcClose i ->
    SM.step s l = Some s' -> SMP.measure s' < SMP.measure s.
Proof. exact SMP.worker_steps_decrease. Qed.

(* ------------------------------------------------------------------------------------------------ *)
(* non-vacuity: the models run non-trivial histories (each ends in a quiescent state) *)

(* four inputs (reflect path): input 1 closes first (RemoveUnordered moves the last case into its slot), values
   from inputs 3 and 0 pass through, then everything closes and the call returns *)
Example C12_ex_merge4 :
  option_map (fun s => (CM.pc s, CM.cases s, CM.outs s, CM.gots s, CM.taken s))
    (run CM.qstep (CM.init_merge [0; 0; 0; 0] 0)
       [CM.LStart; CM.LCmd 1 CM.CClose; CM.TProdClose 1; CM.LClosed 1; CM.TLibRecv 1;
        CM.LCmd 3 (CM.CSend 3000%Z); CM.LPermit 0 2; CM.TLibRecv 1; CM.LSent 3 3000%Z; CM.TLibSend; CM.LRecvd 0 3000%Z;
        CM.LCmd 0 (CM.CSend 5%Z); CM.LCmd 0 CM.CClose; CM.TLibRecv 0; CM.TLibSend; CM.LSent 0 5%Z; CM.TProdClose 0;
        CM.TLibRecv 0; CM.LRecvd 0 5%Z; CM.LClosed 0;
        CM.LCmd 2 CM.CClose; CM.LCmd 3 CM.CClose; CM.TProdClose 3; CM.TProdClose 2; CM.TLibRecv 0; CM.TLibRecv 0;
        CM.TLibExit; CM.LRet; CM.LClosed 2; CM.LClosed 3; CM.LQuiesce])
  = Some (CM.LDone, [], [[(3, 3000%Z); (0, 5%Z)]], [[5%Z]; []; []; [3000%Z]], [[3000%Z; 5%Z]]).
Proof. vm_compute. reflexivity. Qed.

(* zero inputs: Merge returns immediately *)
Example C12_ex_merge0 :
  option_map CM.pc (run CM.qstep (CM.init_merge [] 0) [CM.LStart; CM.TLibExit; CM.LRet; CM.LQuiesce]) = Some CM.LDone.
Proof. vm_compute. reflexivity. Qed.

(* Replicate to a buffered and an unbuffered destination: the first destination is one item ahead *)
Example C12_ex_replicate :
  option_map (fun s => (CM.pc s, CM.outs s, CM.gots s, CM.taken s))
    (run CM.qstep (CM.init_replicate 1 [2; 0])
       [CM.LStart; CM.LCmd 0 (CM.CSend 1%Z); CM.LCmd 0 (CM.CSend 2%Z); CM.TProdBuf 0; CM.LSent 0 1%Z; CM.TLibRecv 0;
        CM.TLibSend; CM.LPermit 1 1; CM.TLibSend; CM.LRecvd 1 1%Z; CM.TProdBuf 0; CM.LSent 0 2%Z; CM.TLibRecv 0;
        CM.TLibSend; CM.LQuiesce])
  = Some (CM.LHand 0 2%Z 1, [[(0, 1%Z); (0, 2%Z)]; [(0, 1%Z)]], [[1%Z; 2%Z]], [[]; [1%Z]]).
Proof. vm_compute. reflexivity. Qed.

(* stream.Merge of two inputs: an item from input 0 is delivered, input 1 fails with error 9 and wins the CAS,
   input 0's Next returns the context error and loses the CAS, the consumer sees error 9, then closes the
   stream; both inputs are closed exactly once and both workers are gone *)
Example C12_ex_stream :
  option_map (fun s => (SM.ws s, SM.recvd s, SM.winners s, SM.seen s, SM.serr s, map SM.s_closes (SM.srcs s), SM.kpc_ s))
    (run SM.qstep (SM.init [([7%Z; 8%Z], None); ([], Some 9%Z)] [SM.KCNext 0; SM.KCNext 0; SM.KCClose] 1)
       [SM.LMerge; SM.LSrcEnter 0; SM.LSrcEnter 1; SM.LRelease 0 2; SM.LRelease 1 1; SM.LGo 3; SM.LCallNext 0;
        SM.TNextSel SM.NAPark; SM.LSrcExit 0 (SM.SRItem 7%Z); SM.TSendPoll 0; SM.TSendSel 0 SM.AChan;
        SM.LRetNext (SM.NItem 7%Z); SM.LSrcExit 1 (SM.SRErr (SM.EScr 9%Z)); SM.TCas 1; SM.TWCancel 1; SM.LSrcEnter 0;
        SM.LSrcExit 0 (SM.SRErr SM.ECtx); SM.TCas 0; SM.TSCloseErr 1; SM.LCallNext 0; SM.TNextSel SM.NASender;
        SM.TDrain None; SM.LRetNext (SM.NErr (SM.EScr 9%Z)); SM.TDefer 0; SM.TDefer 1; SM.TLoadOnce 1; SM.LSrcClose 0;
        SM.LSrcClose 1; SM.TWgDone 0; SM.TWgDone 1; SM.LCallClose; SM.TKClose1; SM.TKClose2; SM.TKWait; SM.LRetClose;
        SM.LQuiesce 0])
  = Some ([SM.WExited; SM.WExited], [(0, 7%Z)], [(1, SM.EScr 9%Z)], [SM.NItem 7%Z; SM.NErr (SM.EScr 9%Z)],
          Some (SM.EScr 9%Z), [1; 1], SM.KIdle).
Proof. vm_compute. reflexivity. Qed.

Print Assumptions C12_chans_interleaving.
Print Assumptions C12_chans_multiset.
Print Assumptions C12_chans_terminates.
Print Assumptions C12_chans_terminates_progress.
Print Assumptions C12_chans_terminates_when_done.
Print Assumptions C12_replicate.
Print Assumptions C12_replicate_progress.
Print Assumptions C12_stream_interleaving.
Print Assumptions C12_stream_end_when_all_done.
Print Assumptions C12_stream_end_zero_inputs.
Print Assumptions C12_stream_end_progress.
Print Assumptions C12_first_error.
Print Assumptions C12_first_error_sticky.
Print Assumptions C12_later_errors_dropped.
Print Assumptions C12_workers_exit_after_close.
Print Assumptions C12_chans_terminates_variant.
Print Assumptions C12_replicate_variant.
Print Assumptions C12_workers_exit_variant.

(* ---- the correspondence check's history matchers are certified (Conc/MergeMatcher.v): sound, and complete
        whenever their closures converged, although their state test ignores ghost history and compares the
        reflect-path case list up to order (a bisimulation quotient) ---- *)
From Juniper Require Conc.GoLTS Conc.Merge Conc.MergeMatcher.

Theorem C12_chans_matcher_sound : forall rep incaps outcaps evs,
    Merge.CM.accepts_history rep incaps outcaps evs = true ->
    exists ls s, GoLTS.run Merge.CM.qstep (Merge.CM.init rep incaps outcaps) ls = Some s /\ MergeMatcher.CMM.cm_trace ls = evs.
Proof. exact MergeMatcher.CMM.cm_accepts_sound. Qed.

Theorem C12_chans_matcher_rejections_genuine : forall rep incaps outcaps evs,
    MergeMatcher.CMM.cm_converged rep incaps outcaps evs = true -> Merge.CM.accepts_history rep incaps outcaps evs = false ->
    forall ls s, GoLTS.run Merge.CM.qstep (Merge.CM.init rep incaps outcaps) ls = Some s -> MergeMatcher.CMM.cm_trace ls <> evs.
Proof. exact MergeMatcher.CMM.cm_reject_genuine. Qed.

Theorem C12_stream_matcher_sound : forall scripts prog nctx evs,
    Merge.SM.accepts_history scripts prog nctx evs = true ->
    exists ls s, GoLTS.run Merge.SM.qstep (Merge.SM.init scripts prog nctx) ls = Some s /\ MergeMatcher.SMM.sm_trace ls = evs.
Proof. exact MergeMatcher.SMM.sm_accepts_sound. Qed.

Theorem C12_stream_matcher_rejections_genuine : forall scripts prog nctx evs,
    MergeMatcher.SMM.sm_converged scripts prog nctx evs = true -> Merge.SM.accepts_history scripts prog nctx evs = false ->
    forall ls s, GoLTS.run Merge.SM.qstep (Merge.SM.init scripts prog nctx) ls = Some s -> MergeMatcher.SMM.sm_trace ls <> evs.
Proof. exact MergeMatcher.SMM.sm_reject_genuine. Qed.

Print Assumptions C12_chans_matcher_sound.
Print Assumptions C12_chans_matcher_rejections_genuine.
Print Assumptions C12_stream_matcher_sound.
Print Assumptions C12_stream_matcher_rejections_genuine.

(* Tie to the source: the Go functions the model transcribes still contain exactly the synchronisation operations
   (select arms, channel operations, goroutine starts, timer/context/sync calls) the model accounts for.
   Generated/Census.v is re-extracted from the Go source on every run (tools/gofacts/census.go). *)
From Juniper Require Translated.CensusC12.
Theorem C12_source_census : Translated.CensusC12.census_expected_C12.
Proof. exact Translated.CensusC12.census_C12_ok. Qed.
Print Assumptions C12_source_census.
