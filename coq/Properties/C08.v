(* C08 (sequential part) - stream failures surface intact; a failed Next costs nothing.
   Statements only; proofs in theories/Iter/.  Models: Iter/StreamModel.v (run_stream_cfg).

   Vocabulary (Iter/Spec.v):
     den p            the item sequence the documentation of the pipeline p defines
     pipe_scrub k p   p with every scripted source continuing with the events k instead of its
                      first fatal error, and with callbacks that never return an error (panics
                      are no faults in this sense: panicking callbacks and EvPanic events stay)
     pipe_codes p     the codes of the fatal source errors and of the callbacks of p that
                      return an error
     legal l rs       rs delivers the items of l in order, errors may be interleaved anywhere,
                      the end is reported only when all of l has been delivered
     legal_until C l rs   the same, up to the first error whose code is in C
     okp true p       parameters in the documented domain, no fatal source error and no panicking
                      source, callbacks never fail (neither by an error nor by a panic); ANY
                      number of transient source errors
     no_panics p      no callback of p panics, no scripted source has an EvPanic event
     script_ok k      the events k contain no fatal error and no panic
     pipe_erase p     the fault-erased twin of p: every transient error removed from the scripts
     ctx_blind p      no part of p looks at the context: every source is an SScriptNC, there is
                      no Flatten (its outer stream is a FromIterator, which does look)

     perr e fl p      p reaches a stream.Error(e) with its first inner Next (Iter/ErrorSource.v):
                      the source SError e itself, or Peek / Compact / Filter / Map / While /
                      FlattenSlices(Chunk) / FlattenSlices(Runs) / First n (n >= 1) over such a
                      pipeline, or a Join - with fl = true also a Flatten - whose first stream
                      is one

   Sources.  All statements quantify over all sources of Iter/Syntax.v (stream.Error(e) = SError e
   among them: an unretryable fault and nothing else, src_codes = [e]), of both attitudes to
   the context: FromIterator sources and SScript check the context first (expired: the context
   error, nothing consumed); SScriptNC never looks at it - called with an expired context it
   hands over, and consumes, its next scripted event exactly as with a live one (slice-backed
   streams, channel-backed streams whose select picks the ready item).  Over such sources a
   combinator that looked at the context after pulling, and returned the context error instead
   of what it pulled, would lose an item; C08_retry, C08_retry_costs_nothing_ctx_ignoring_source
   and C08_ctx_blind_* say that none does. *)
From Juniper Require Import Common.Base Iter.Syntax Iter.Config Iter.ModelBase Iter.IterModel
  Iter.StreamModel Iter.Spec Iter.IterProofs Iter.StreamProofs Iter.StreamFatal Iter.SReducers
  Iter.GapsLazy Iter.GapsLazyS Iter.ErrorSource.

(* Fatal half.  For every pipeline in the documented domain in which nothing panics
   (no_panics p = true: a panic is neither an item nor an error - [legal_until] has no place for
   it), with any faults (fatal and transient source errors, callbacks that return errors) and
   any contexts: until the first reported error that is one
   of the pipeline's fault codes, the results are a legal trace of the pipeline's denotation in
   the world where the failed sources continue with k - FOR EVERY k.  So the items delivered are
   correct for the items the sources delivered before failing (k = []), and the end is never
   reported at a point where a continuation would have produced more (take another k). *)
Theorem C08_fatal : forall cfg p lives k,
  dom p -> no_panics p = true -> script_ok k ->
  legal_until (pipe_codes p) (den (pipe_scrub k p))
              (results (run_stream_cfg cfg p (Steps (map CNext lives)))).
Proof. exact stream_steps_fatal. Qed.

(* The hypothesis no_panics cannot be dropped (the statement as it was before callbacks could
   panic:  forall cfg p lives k, dom p -> no_fatal k -> legal_until ... ):                      *)
Theorem C08_fatal_without_no_panics_refuted :
  exists p lives, dom p /\
    ~ legal_until (pipe_codes p) (den (pipe_scrub [] p))
                  (results (run_stream p (Steps (map CNext lives)))).
Proof.
  exists (inl (ZFilter PrTrue (mkFailing (Some 0%nat) 0 true) (ZSrc 0 (SSlice [1])))), [true].
  split; [exact I|]. vm_compute. intros H; exact H.
Qed.

(* The step-level fact behind it: a Next call on ANY state (panicking callbacks and sources
   included: a panic is the same panic on the scrubbed state) either behaves exactly as on the
   scrubbed state (same result, same source events, scrubbed successor) or returns Err e for a
   fault code e of the state: an error that cannot be retried is reported at once, unchanged,
   by every combinator. *)
Theorem C08_fatal_step : forall k live f s o s' ev,
  snext f live s = (o, s', ev) ->
  incl (scodes s') (scodes s) /\
  (snext f live (scrub k s) = (o, scrub k s', ev) \/ exists e, o = Err e /\ In e (scodes s)).
Proof. intros k live f. exact (proj1 (snext_sim k live f)). Qed.

(* reducers return the error, or the value that is right whatever the failed sources would have
   delivered next *)
Theorem C08_fatal_collect : forall cfg p live k,
  dom_z p -> no_panics_z p = true -> script_ok k ->
  (exists e, results (run_stream_cfg cfg (inl p) (Reduce RCollect live)) = [RErr e]) \/
  results (run_stream_cfg cfg (inl p) (Reduce RCollect live)) = [RVal (den_z (pz_scrub k p))].
Proof. exact stream_collect_fatal. Qed.

(* the reduction function may return an error too; it does not panic *)
Theorem C08_fatal_reduce : forall cfg p live k,
  dom_z p -> no_panics_z p = true -> script_ok k -> forall fl, cb_panics fl = false ->
  (exists e, results (run_stream_cfg cfg (inl p) (Reduce (RSum fl) live)) = [RErr e]) \/
  results (run_stream_cfg cfg (inl p) (Reduce (RSum fl) live))
  = [RVal [fold_left Z.add (den_z (pz_scrub k p)) 0]].
Proof. exact stream_sum_fatal. Qed.

Theorem C08_fatal_one : forall cfg p live k,
  dom_z p -> no_panics_z p = true -> script_ok k ->
  (exists e, results (run_stream_cfg cfg (inl p) (Reduce ROne live)) = [RErr e]) \/
  results (run_stream_cfg cfg (inl p) (Reduce ROne live)) = [one_res (den_z (pz_scrub k p))].
Proof. exact stream_one_fatal. Qed.

(* Last: for every n in the repaired configuration, for n >= 1 in any configuration *)
Theorem C08_fatal_last : forall cfg p live k,
  dom_z p -> no_panics_z p = true -> script_ok k ->
  forall n, (cfg_last_guard cfg = true \/ 1 <= n) ->
  (exists e, results (run_stream_cfg cfg (inl p) (Reduce (RLast n) live)) = [RErr e]) \/
  results (run_stream_cfg cfg (inl p) (Reduce (RLast n) live))
  = [RVal (lastn (Z.to_nat n) (den_z (pz_scrub k p)))].
Proof. exact stream_last_fatal. Qed.

(* stream.Error(E) under every combinator and every reducer: E itself is what the caller gets.
   For every pipeline that reaches a stream.Error(e) with its first inner Next (perr; callbacks
   arbitrary - none is ever invoked -, the later streams of a Join / Flatten arbitrary) and every
   consumer program - Next with live or expired contexts, any number of times, Close anywhere -
   each Next answers exactly Err e: no item, no end, no other error, no panic; each Close
   returns.  Pipelines with a Flatten: for programs whose Next calls have live contexts (the
   outer stream of a Flatten is a FromIterator, which answers an expired context itself). *)
Theorem C08_error_source : forall e cfg fl p ops,
  perr_p e fl p -> (fl = true -> Forall (fun o => ~ expired_next o) ops) ->
  results (run_stream_cfg cfg p (Steps ops)) = map (error_answer e) ops.
Proof. exact error_source_program. Qed.

(* Collect, Last (n >= 0; every n with the guard), One and Reduce return e (the reduction
   function is never invoked) *)
Theorem C08_error_source_reducers : forall e cfg fl p r live,
  perr e fl p -> (fl = true -> live = true) -> error_reducer cfg r ->
  results (run_stream_cfg cfg (inl p) (Reduce r live)) = [RErr e].
Proof. exact error_source_reduce. Qed.

(* in the vocabulary of the fatal half: the source's code is the fault code, the source ignores
   the context, denotes nothing, continues with k when scrubbed, and is not "ok" *)
Theorem C08_error_source_vocabulary : forall id e k,
  pz_codes (ZSrc id (SError e)) = [e] /\
  ctx_blind_z (ZSrc id (SError e)) /\
  den_z (ZSrc id (SError e)) = [] /\
  pz_scrub k (ZSrc id (SError e)) = ZSrc id (SScriptNC k) /\
  ~ okz true (ZSrc id (SError e)).
Proof. exact error_source_vocabulary. Qed.

(* Non-vacuity (computed): every combinator and reducer directly over stream.Error(7); and the
   limits of perr: First 0 never asks its stream, an unstarted Flatten answers an expired
   context itself, a Join reports the error when it gets to the failing stream *)
Example C08_error_source_examples :
  let E := ZSrc 0 (SError 7) in
  let prog := Steps [CNext true; CNext false; CNext true; CClose; CNext true] in
  let want := [RErr 7; RErr 7; RErr 7; RUnit; RErr 7] in
  map (fun p => results (run_stream p prog))
    [inl E; inl (ZPeek E); inl (ZCompact RelEq E); inl (ZFilter PrTrue never_fails E);
     inl (ZFirst 2 E); inl (ZJoin [E; ZSrc 1 (SSlice [1; 2])]); inl (ZMap (FnAffine 1 0) never_fails E);
     inl (ZWhile PrTrue never_fails E); inl (ZFlattenSlices (LChunk 2 E));
     inl (ZFlattenSlices (LRuns RelEq None E)); inr (LChunk 3 E); inr (LRuns RelEq (Some 1%nat) E)]
  = repeat want 12 /\
  map (fun r => results (run_stream (inl (ZMap (FnAffine 2 1) never_fails E)) (Reduce r false)))
    [RCollect; RLast 0; RLast 2; ROne; RSum never_fails]
  = repeat [RErr 7] 5 /\
  results (run_stream (inl (ZFlatten [E; ZSrc 1 (SSlice [1])])) (Steps [CNext true; CNext true]))
  = [RErr 7; RErr 7] /\
  results (run_stream (inl (ZFlatten [E])) (Steps [CNext false; CNext true; CNext false]))
  = [RErr (-1); RErr 7; RErr 7] /\
  results (run_stream (inl (ZFirst 0 E)) (Steps [CNext true])) = [REnd] /\
  results (run_stream (inl (ZJoin [ZSrc 1 (SSlice [1]); E])) (Steps [CNext true; CNext true; CNext true]))
  = [RItem (IZ 1); RErr 7; RErr 7].
Proof. exact error_source_examples. Qed.

(* Retry half.  Pipelines without unretryable faults but with ANY number and placement of
   transient source errors and of Next calls with an expired context, over sources of either
   attitude to the context (a context-ignoring source answers an expired call with its next
   item: [legal] allows items anywhere): the results are a legal trace of the denotation -
   nothing is lost, nothing is duplicated, the end is reported only after everything has been
   delivered. *)
Theorem C08_retry : forall cfg p lives,
  okp true p -> legal (den p) (results (run_stream_cfg cfg p (Steps (map CNext lives)))).
Proof. exact stream_steps_legal. Qed.

(* ... and without the transient errors and the expired contexts the same pipeline delivers
   exactly that denotation (erasing the faults changes nothing but the errors) *)
Theorem C08_retry_erased : forall cfg p k,
  okp false p ->
  results (run_stream_cfg cfg p (Steps (map CNext (repeat true k)))) = expect (den p) k.
Proof. exact stream_steps_den. Qed.

(* The same against the twin.  Any pipeline without unretryable faults over ANY sources -
   context-ignoring ones (SScriptNC) included -, any number and placement of transient source
   errors and of Next calls with an expired context: the items delivered are exactly the items
   the fault-erased twin delivers to as many calls with a live context (nothing lost, nothing
   duplicated, nothing reordered), and when the run reports the end the twin's next call
   reports the end too (nothing was left behind). *)
Theorem C08_retry_costs_nothing_ctx_ignoring_source : forall cfg p lives,
  okp true p ->
  let rs := results (run_stream_cfg cfg p (Steps (map CNext lives))) in
  let n := length (items_of rs) in
  results (run_stream_cfg cfg (pipe_erase p) (Steps (map CNext (repeat true n))))
  = map RItem (items_of rs) /\
  (In REnd rs ->
   results (run_stream_cfg cfg (pipe_erase p) (Steps (map CNext (repeat true (S n)))))
   = map RItem (items_of rs) ++ [REnd]).
Proof. exact stream_retry_twin. Qed.

(* the twin is failure-free and denotes the same items *)
Theorem C08_twin : forall p, okp true p -> okp false (pipe_erase p) /\ den (pipe_erase p) = den p.
Proof. intros p H. exact (conj (pipe_erase_ok p H) (pipe_erase_den p)). Qed.

(* No combinator looks at the context itself.  On a pipeline none of whose parts looks at the
   context (ctx_blind) a Next with an expired context IS a Next with a live one: for every
   consumer program (Next with any contexts, Close) the whole run - results, pull counts after
   every step, event log - is that of the same program with live contexts; for ANY faults
   (transient and fatal source errors, failing callbacks). *)
Theorem C08_ctx_blind_expired_is_live : forall cfg p ops,
  ctx_blind p ->
  run_stream_cfg cfg p (Steps ops) = run_stream_cfg cfg p (Steps (map op_live ops)).
Proof. exact stream_blind_live. Qed.

Theorem C08_ctx_blind_expired_is_live_reducers : forall cfg p r live,
  ctx_blind_z p ->
  run_stream_cfg cfg (inl p) (Reduce r live) = run_stream_cfg cfg (inl p) (Reduce r true).
Proof. exact stream_blind_live_reduce. Qed.

(* step level (sblind: the property of states; same fuel on both sides) *)
Theorem C08_ctx_blind_step : forall s,
  sblind s -> sstep false s = sstep true s /\ sblind (snd (fst (sstep true s))).
Proof. exact sstep_blind. Qed.

(* in particular a failure-free pipeline of that kind never answers the context error *)
Theorem C08_ctx_blind_never_ctx_error : forall cfg p lives,
  ctx_blind p -> okp false p ->
  results (run_stream_cfg cfg p (Steps (map CNext lives))) = expect (den p) (length lives).
Proof. exact stream_blind_steps_den. Qed.

(* The step-level fact: a failed call of a pipeline without unretryable faults leaves the
   denotation of the state unchanged (whatever it did internally is kept: chunkStream.chunk,
   peekable.curr, whileStream.item, the runs consumer's partial run, ...).  This includes calls
   with an expired context over context-ignoring sources: whatever such a call pulled from a
   source before failing is still in the state. *)
Theorem C08_failed_call_costs_nothing : forall live f s e s' ev,
  sok true s -> snext f live s = (Err e, s', ev) -> sok true s' /\ sden s' = sden s.
Proof. exact failed_call_costs_nothing. Qed.

(* Non-vacuity: a run with a transient error and an expired context in the middle of a chunk,
   and one with a fatal error after two items *)
Example C08_retry_example :
  results (run_stream (inr (LChunk 2 (ZSrc 0 (SScript [EvItem 1; EvTransient 9; EvItem 2;
                                                       EvItem 3]))))
                      (Steps (map CNext [true; false; true; true; true])))
  = [RErr 9; RErr (-1); RItem (IL [1; 2]); RItem (IL [3]); REnd].
Proof. exact retry_example. Qed.

Example C08_fatal_example :
  results (run_stream (inl (ZFilter (PrLt 10) never_fails
                              (ZSrc 0 (SScript [EvItem 1; EvItem 2; EvFatal 7; EvItem 3]))))
                      (Steps (map CNext [true; true; true; true])))
  = [RItem (IZ 1); RItem (IZ 2); RErr 7; RErr 7].
Proof. exact fatal_example. Qed.

(* Non-vacuity for context-ignoring sources: Filter over an SScriptNC; the calls with an
   expired context deliver what they pull (2 is dropped by the filter on the way), the
   transient error costs nothing.  A filterStream.Next that looked at ctx.Err() after its inner
   Next had succeeded would answer RErr (-1) to the first call and lose the item 1. *)
Example C08_ctx_ignoring_example :
  let p := inl (ZFilter (PrModEq 2 1) never_fails
                  (ZSrc 0 (SScriptNC [EvItem 1; EvItem 2; EvItem 3; EvTransient 9; EvItem 5]))) in
  okp true p /\ ctx_blind p /\
  results (run_stream p (Steps (map CNext [false; false; true; false; false])))
  = [RItem (IZ 1); RItem (IZ 3); RErr 9; RItem (IZ 5); REnd] /\
  results (run_stream (pipe_erase p) (Steps (map CNext [true; true; true; true])))
  = [RItem (IZ 1); RItem (IZ 3); RItem (IZ 5); REnd].
Proof.
  split; [simpl; unfold script_ok; simpl; intuition discriminate|]. split; [reflexivity|].
  split; vm_compute; reflexivity.
Qed.

(* the same program over the context-respecting twin of the source: the expired calls cost
   nothing either, but deliver nothing *)
Example C08_ctx_respecting_example :
  results (run_stream (inl (ZFilter (PrModEq 2 1) never_fails
                              (ZSrc 0 (SScript [EvItem 1; EvItem 2; EvItem 3; EvTransient 9;
                                                EvItem 5]))))
                      (Steps (map CNext [false; false; true; false; true])))
  = [RErr (-1); RErr (-1); RItem (IZ 1); RErr (-1); RItem (IZ 3)].
Proof. vm_compute. reflexivity. Qed.

(* stream.Last with n = 0 before the repair (original_cfg): integer divide by zero.
   The full statement [C08_fatal_last] is proved for the repaired configuration. *)
Theorem C08_last_n0_refuted :
  exists p, okz false p /\
    results (run_stream_cfg original_cfg (inl p) (Reduce (RLast 0) true))
    <> [RVal (lastn (Z.to_nat 0) (den_z p))].
Proof. exact stream_last_n0_refuted. Qed.

Print Assumptions C08_fatal.
Print Assumptions C08_fatal_without_no_panics_refuted.
Print Assumptions C08_fatal_step.
Print Assumptions C08_fatal_collect.
Print Assumptions C08_fatal_reduce.
Print Assumptions C08_fatal_one.
Print Assumptions C08_fatal_last.
Print Assumptions C08_error_source.
Print Assumptions C08_error_source_reducers.
Print Assumptions C08_error_source_vocabulary.
Print Assumptions C08_retry.
Print Assumptions C08_retry_erased.
Print Assumptions C08_retry_costs_nothing_ctx_ignoring_source.
Print Assumptions C08_twin.
Print Assumptions C08_ctx_blind_expired_is_live.
Print Assumptions C08_ctx_blind_expired_is_live_reducers.
Print Assumptions C08_ctx_blind_step.
Print Assumptions C08_ctx_blind_never_ctx_error.
Print Assumptions C08_failed_call_costs_nothing.
Print Assumptions C08_last_n0_refuted.
