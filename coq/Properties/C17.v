(* C17 — xsync.Group (xsync/xsync.go): StopAndWait is a barrier; trigger calls are never lost and
   runs of one f never overlap; periodic functions keep being invoked until the group is stopped.
   Only statements live here; each is closed by [exact] of a theorem proved in Conc/GroupProofs.v.

   The model (Conc/Group.v) is a labelled transition system [qstep] whose threads are: one
   registration thread per call of Do / Periodic / Trigger / PeriodicOrTrigger (spawn's RLock,
   ctx.Err() check, wg.Add, RUnlock, go are separate steps), the spawned loop goroutines, trigger-call
   threads, Stop / StopAndWait callers (Lock, cancel, Unlock, wg.Wait separate), the environment
   (parent cancellation, timer fires, gates inside f).  [init c] is the initial state of scenario [c]:
   ANY number of registrations of any kind, of trigger calls and of stoppers; [reachable qstep (init c) s]
   quantifies over ALL interleavings.  Ghost fields: [r_runs] = f-enter events so far, [r_infl] = runs of
   f in progress, [r_spawns] = go statements executed, [t_runs0] = [r_runs] at the trigger call's Call. *)
From Juniper Require Import Common.Base Conc.GoLTS Conc.Group Conc.GroupProofs.
Local Open Scope nat_scope.

(* Clause 1.  Once some StopAndWait call has returned, then in that state and in every state of every
   continuation (any further registrations, trigger calls, stops, timer fires ...): no goroutine of the
   group exists any more, no run of f is in progress, f-enter and f-exit are disabled for every
   registration, and no registration can pass wg.Add or the go statement - including registrations
   whose start raced with the stop. *)
Theorem C17_barrier : forall c s,
  reachable qstep (init c) s ->
  (exists k y, nth_error (stops s) k = Some y /\ s_wait y = true /\ s_pc y = SRet) ->
  forall ls s', run qstep s ls = Some s' ->
  forall r x, nth_error (regs s') r = Some x ->
    (r_gpc x = GNone \/ r_gpc x = GExited) /\ r_infl x = 0 /\
    step s' (LFEnter r) = None /\ step s' (LFExit r) = None /\ step s' (TGo r) = None /\ step s' (TAdd r) = None.
Proof. exact group_barrier_ret. Qed.

(* ... and a run that started before the stop (for instance the Trigger loop calls f after receiving
   its token although the context was cancelled in between) is covered: while any goroutine of the
   group is alive, or a registration is between wg.Add and go, no wg.Wait returns. *)
Theorem C17_barrier_covers_started_runs : forall c s k,
  reachable qstep (init c) s ->
  (exists r x, nth_error (regs s) r = Some x /\ contrib x = 1) ->
  step s (TWait k) = None.
Proof. exact group_wait_covers. Qed.

(* Clause 2a (safety).  For every trigger call that has performed its send: the group's context is
   cancelled, or the token is in the one-slot channel, or the goroutine has taken the token and its
   next visible event is f-enter, or a run of f has begun after the Call event. *)
Theorem C17_trigger_not_lost : forall c s t y,
  reachable qstep (init c) s -> nth_error (trigs s) t = Some y -> sent (t_pc y) = true ->
  exists x, nth_error (regs s) (t_reg y) = Some x /\ t_runs0 y <= r_runs x /\
            (ctxd s = true \/ r_tok x = true \/ pre_run (r_gpc x) = true \/ t_runs0 y < r_runs x).
Proof. exact group_trigger_not_lost. Qed.

(* Clause 2b (progress).  While the group runs and no run has begun after the call, the goroutine is
   inside the previous run of f (waiting for the caller's f to return) or one of its own steps towards
   f-enter is enabled: it is never parked, blocked in the drain, or gone. *)
Theorem C17_trigger_progress : forall c s t y,
  reachable qstep (init c) s -> nth_error (trigs s) t = Some y -> sent (t_pc y) = true ->
  ctxd s = false ->
  exists x, nth_error (regs s) (t_reg y) = Some x /\
    (t_runs0 y < r_runs x \/ r_gpc x = GInF \/ exists l, In l (gor_labels (t_reg y)) /\ en s l).
Proof. exact group_trigger_progress. Qed.

(* Clause 2c / 4c (variant).  Every step of a loop goroutine other than f-enter (including parking
   and the return of f), and the timer firing on a parked loop, strictly decreases the distance
   [gdist] (at most 9) to the next f-enter while the group is not cancelled. *)
Theorem C17_loop_variant : forall s r l s' x x',
  step s l = Some s' -> In l (gor_labels r ++ [TPark r; LFExit r; TFire r]) -> l <> LFEnter r ->
  getr s r = Some x -> getr s' r = Some x' -> ctxd s = false -> r_kind x <> KDo ->
  (l = TFire r -> r_gpc x = GParked) ->
  gdist (r_gpc x') < gdist (r_gpc x).
Proof. exact group_loop_variant. Qed.

(* Clause 3.  At most one run of f per registration is in progress in any state (and at most one
   goroutine was ever spawned for it); f-enter is only enabled when no run is in progress. *)
Theorem C17_no_overlap : forall c s r x,
  reachable qstep (init c) s -> nth_error (regs s) r = Some x ->
  r_infl x <= 1 /\ (r_infl x = 1 <-> r_gpc x = GInF) /\ r_spawns x <= 1.
Proof. exact group_no_overlap. Qed.

Theorem C17_enter_exit_alternate : forall c s r x,
  reachable qstep (init c) s -> nth_error (regs s) r = Some x ->
  (step s (LFEnter r) <> None -> r_infl x = 0) /\ (step s (LFExit r) <> None -> r_infl x = 1).
Proof. exact group_enter_exit. Qed.

(* Clause 4a.  Timer discipline of Periodic / PeriodicOrTrigger under the pre-1.23 semantics: no stale
   value ever survives a Reset; whenever the loop waits in its select its timer is Armed (so it fires,
   and the fire wakes the loop); the drain <-t.C after a failed t.Stop() is only executed when the
   channel really holds a value (no deadlock); the loop exits only when the context is cancelled. *)
Theorem C17_periodic_continues : forall c s r x,
  reachable qstep (init c) s -> nth_error (regs s) r = Some x -> has_timer (r_kind x) = true ->
  (r_tact x && r_tchan x = false) /\
  (r_gpc x = GSelect -> xorb (r_tact x) (r_tchan x) = true) /\
  (r_gpc x = GParked -> r_tact x = true /\ r_tchan x = false /\
                        exists s' x', step s (TFire r) = Some s' /\ getr s' r = Some x' /\ r_gpc x' = GReset) /\
  (r_gpc x = GDrain -> r_tchan x = true /\ en s (TDrain r)) /\
  (r_gpc x = GReset -> r_tact x = false /\ r_tchan x = false) /\
  (r_gpc x = GExiting \/ r_gpc x = GExited -> ctxd s = true).
Proof. exact group_timer_facts. Qed.

(* Clause 4b (progress).  A spawned periodic loop, while the group is not cancelled, is inside f or
   has an enabled step of its own or is parked with its timer armed (the fire is enabled). *)
Theorem C17_periodic_progress : forall c s r x,
  reachable qstep (init c) s -> nth_error (regs s) r = Some x -> has_timer (r_kind x) = true ->
  ctxd s = false -> r_gpc x <> GNone ->
  r_gpc x = GInF \/ exists l, In l (gor_labels r ++ [TPark r; TFire r]) /\ en s l.
Proof. exact group_periodic_progress. Qed.

Print Assumptions C17_barrier.
Print Assumptions C17_barrier_covers_started_runs.
Print Assumptions C17_trigger_not_lost.
Print Assumptions C17_trigger_progress.
Print Assumptions C17_loop_variant.
Print Assumptions C17_no_overlap.
Print Assumptions C17_enter_exit_alternate.
Print Assumptions C17_periodic_continues.
Print Assumptions C17_periodic_progress.

(* ---- the correspondence check's (partial-order reduced) history matcher is certified for this model
        (Conc/GroupMatcher.v): sound, and complete whenever its closures converged ---- *)
From Juniper Require Conc.GoLTS Conc.Group Conc.GroupMatcher.

Theorem C17_matcher_sound : forall c evs,
    Group.accepts_history c evs = true ->
    exists ls s, GoLTS.run Group.qstep (Group.init c) ls = Some s /\ GroupMatcher.group_trace ls = evs.
Proof. exact GroupMatcher.group_accepts_sound. Qed.

Theorem C17_matcher_rejections_genuine : forall c evs,
    GroupMatcher.group_converged c evs = true -> Group.accepts_history c evs = false ->
    forall ls s, GoLTS.run Group.qstep (Group.init c) ls = Some s -> GroupMatcher.group_trace ls <> evs.
Proof. exact GroupMatcher.group_reject_genuine. Qed.

Print Assumptions C17_matcher_sound.
Print Assumptions C17_matcher_rejections_genuine.

(* Tie to the source: the Go functions the model transcribes still contain exactly the synchronisation operations
   (select arms, channel operations, goroutine starts, timer/context/sync calls) the model accounts for.
   Generated/Census.v is re-extracted from the Go source on every run (tools/gofacts/census.go). *)
From Juniper Require Translated.CensusC17.
Theorem C17_source_census : Translated.CensusC17.census_expected_C17.
Proof. exact Translated.CensusC17.census_C17_ok. Qed.
Print Assumptions C17_source_census.
