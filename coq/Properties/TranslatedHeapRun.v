(* C05 -- END TO END tie to the source by translation.
   Properties/TranslatedHeap.v and TranslatedPQ.v say, method by method, that the translation of
   internal/heap/heap.go and of xheap.PriorityQueue (Generated/ImpHeap.v, Generated/ImpPQ.v, regenerated from the
   Go source on every run by tools/gofacts/imp.go) equals the hand-written model in every reachable state.
   Here the whole history machine is run ON the translated functions: gi_hrun / gi_qrun
   (Translated/ImpHeapRun.v) are Model.hrun / Model.qrun with gi_Heap_New, gi_Heap_Push, gi_Heap_Pop,
   gi_Heap_Peek, gi_Heap_Len and gi_PQ_Update, gi_PQ_Pop, gi_PQ_Peek, gi_PQ_Contains, gi_PQ_Priority,
   gi_PQ_Remove, gi_PQ_Len in the place of the model's functions.  For every initial slice of fewer than 2^60
   items and every history of fewer than 2^60 calls they print the outputs and reach the state of the model's
   machine, so the theorems of Properties/C05.v hold of the runs of the translated source.
   Still the model's clauses inside gi_hstep / gi_qstep (not translated): Grow / Shrink (xslices), the iterator
   operations, and the constructor NewPriorityQueue (gi_qrun starts from Model.qnew).
   Only statements live here; each is closed by [exact] of a lemma of Translated/ImpHeapRun.v. *)
From Juniper Require Import Common.Base Heap.Model Heap.Spec Heap.Corr Heap.Lemmas Heap.Proofs.
From Juniper Require Import Translated.GoImp Generated.ImpHeap Generated.ImpPQ.
From Juniper Require Import Translated.ImpHeapOK Translated.ImpPQOK Translated.ImpHeapRun.
Open Scope Z_scope.

(* one step of the machine on the translated methods is one step of the model, on every heap below the int64
   limits (fewer than 2^61 items, generation in [0, 2^62)) *)
Theorem C05_translated_heap_step_equals_model :
  forall (less : Z -> Z -> bool) (s : hst) (o : hop),
    small (hh s) -> gi_hstep less s o = hstep less s o.
Proof. exact gi_hstep_eq. Qed.

Theorem C05_translated_pq_step_equals_model :
  forall (pless : Z -> Z -> bool) (s : qst) (o : qop),
    small (qq s) -> gi_qstep pless s o = qstep pless s o.
Proof. exact gi_qstep_eq. Qed.

(* the translated New followed by any history on the translated methods prints the outputs of the model *)
Theorem C05_translated_heap_run_equals_model :
  forall (less : Z -> Z -> bool) (initial : list Z) (ops : list hop),
    zlen initial < 2^60 -> Z.of_nat (length ops) < 2^60 ->
    gi_hrun less initial ops = hrun less initial ops.
Proof. exact gi_hrun_eq. Qed.

(* ... and ends in the model's state (array, generation, parked iterators) *)
Theorem C05_translated_heap_run_state_equals_model :
  forall (less : Z -> Z -> bool) (initial : list Z) (ops : list hop),
    zlen initial < 2^60 -> Z.of_nat (length ops) < 2^60 ->
    gi_hrun_state less initial ops = hrun_state less initial ops.
Proof. exact gi_hrun_state_eq. Qed.

(* the same for the queue; any pless (NewPriorityQueue never fails) *)
Theorem C05_translated_pq_run_equals_model :
  forall (pless : Z -> Z -> bool) (initial : list (Z * Z)) (ops : list qop),
    zlen initial < 2^60 -> Z.of_nat (length ops) < 2^60 ->
    gi_qrun pless initial ops = qrun pless initial ops.
Proof. exact gi_qrun_eq. Qed.

Theorem C05_translated_pq_run_state_equals_model :
  forall (pless : Z -> Z -> bool) (initial : list (Z * Z)) (ops : list qop),
    zlen initial < 2^60 -> Z.of_nat (length ops) < 2^60 ->
    gi_qrun_state pless initial ops = qrun_state pless initial ops.
Proof. exact gi_qrun_state_eq. Qed.

(* C05_heap_refines_multiset, of the translated source: every call returns what the ideal multiset
   (initial + pushes - pops) allows *)
Theorem C05_translated_heap_run_refines_multiset :
  forall (less : Z -> Z -> bool), strict_weak less ->
  forall (initial : list Z) (ops : list hop),
    zlen initial < 2^60 -> Z.of_nat (length ops) < 2^60 ->
    hspec_run less initial ops (gi_hrun less initial ops).
Proof. exact gi_heap_refines_multiset. Qed.

(* C05_heap_ordered, of the translated source *)
Theorem C05_translated_heap_run_ordered :
  forall (less : Z -> Z -> bool), strict_weak less ->
  forall (initial : list Z) (ops : list hop),
    zlen initial < 2^60 -> Z.of_nat (length ops) < 2^60 ->
    heap_ordered less (ha (hh (gi_hrun_state less initial ops))).
Proof. exact gi_heap_ordered_reach. Qed.

(* C05_pq_refines_map, of the translated source: every call returns what the ideal finite map allows *)
Theorem C05_translated_pq_run_refines_map :
  forall (pless : Z -> Z -> bool), strict_weak pless ->
  forall (initial : list (Z * Z)) (ops : list qop),
    zlen initial < 2^60 -> Z.of_nat (length ops) < 2^60 ->
    qspec_run pless (first_occ initial) ops (gi_qrun pless initial ops).
Proof. exact gi_queue_refines_map. Qed.

(* C05_pq_index_exact, of the translated source *)
Theorem C05_translated_pq_run_index_exact :
  forall (pless : Z -> Z -> bool), strict_weak pless ->
  forall (initial : list (Z * Z)) (ops : list qop),
    zlen initial < 2^60 -> Z.of_nat (length ops) < 2^60 ->
    let q := qq (gi_qrun_state pless initial ops) in
    index_exact Z.eqb (ha q) (hs q) /\ heap_ordered (@kpless Z Z pless) (ha q).
Proof. exact gi_queue_inv_reach. Qed.

(* non-vacuity: the machines on the translated code RUN.  A heap history (with Pop/Peek of an empty heap) and
   its final state; a queue history on five items, one duplicate key, and its final state *)
Example C05_translated_run_example :
  (gi_hrun Z.ltb [5; 3; 8; 1; 9; 2] [HPush 4; HPop; HPop; HPeek; HLen; HPush 0; HPop],
   hh (gi_hrun_state Z.ltb [5; 3; 8; 1; 9; 2] [HPush 4; HPop; HPop; HPeek; HLen; HPush 0; HPop]),
   gi_hrun Z.ltb [] [HPop; HPeek; HLen],
   gi_qrun Z.ltb [(1, 50); (2, 30); (3, 80); (4, 10); (2, 99)]
     [QLen; QPeek; QUpdate 3 5; QPop; QPop; QContains 4; QContains 1; QPriority 1; QPriority 9;
      QRemove 2; QRemove 2; QUpdate 7 20; QLen; QPop; QPop; QPop; QPeek],
   qq (gi_qrun_state Z.ltb [(1, 50); (2, 30); (3, 80); (4, 10); (2, 99)]
     [QLen; QPeek; QUpdate 3 5; QPop; QPop; QContains 4; QContains 1; QPriority 1; QPriority 9;
      QRemove 2; QRemove 2; QUpdate 7 20]))
  = ([OUnit; OVal 1; OVal 2; OVal 3; OInt 5; OUnit; OVal 0],
     mkHeap [3; 5; 4; 8; 9] 5 tt,
     [OPanic; OPanic; OInt 0],
     [OInt 4; OVal 4; OUnit; OVal 3; OVal 4; OBool false; OBool true; OInt 50; OInt 0;
      OUnit; OUnit; OUnit; OInt 2; OVal 7; OVal 1; OPanic; OPanic],
     mkHeap [(7, 20); (1, 50)] 5 [(1, 1); (7, 0)]).
Proof. vm_compute. reflexivity. Qed.

Print Assumptions C05_translated_heap_step_equals_model.
Print Assumptions C05_translated_pq_step_equals_model.
Print Assumptions C05_translated_heap_run_equals_model.
Print Assumptions C05_translated_heap_run_state_equals_model.
Print Assumptions C05_translated_pq_run_equals_model.
Print Assumptions C05_translated_pq_run_state_equals_model.
Print Assumptions C05_translated_heap_run_refines_multiset.
Print Assumptions C05_translated_heap_run_ordered.
Print Assumptions C05_translated_pq_run_refines_map.
Print Assumptions C05_translated_pq_run_index_exact.
Print Assumptions C05_translated_run_example.
