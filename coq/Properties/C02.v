(* C02 — tree iterators (Iterate / Range / RangeReverse) stay usable while the same goroutine puts
   and deletes keys between their Next calls.
   Only statements live here; each is closed by [exact] of a lemma proved in Tree/CProofs*.v.

   Layers.  M = BTree.v + Cursor.v (the Go code: cursor, lost, find, seek*, Next/Prev, While,
   Range/RangeReverse) interpreted over histories by Hist.run_M; S = SMap.v + AIter.v (the abstract
   re-seek iterator over the CURRENT sorted map) interpreted by Hist.run_S.  A history interleaves
   TPut / TDel (any keys) and the other operations with TIterNew rev lo hi / TIterNext j of any
   number of simultaneously live forward and reverse iterators with any bounds.

   A.  the five clauses of the property, on layer S, for an arbitrary comparison satisfying
       cmp_laws, over sessions (lists of mutations between consecutive Next calls) and over
       histories;
   B.  C02_total: layer M never panics; there is no fuel (all functions structural);
   C.  C02_refinement: layer M simulates layer S on every history (outputs equal up to
       equivalence of the yielded keys), whence the clauses on the outputs of layer M. *)
From Juniper Require Import Common.Base Generated.Params Tree.Bound Tree.BTree Tree.Cursor Tree.SMap
  Tree.AIter Tree.Hist Tree.Corr
  Tree.CProofsOrder Tree.CProofsSpec Tree.CProofsTree Tree.CProofsSeek Tree.CProofsStep
  Tree.CProofsSim Tree.CProofsDrain Tree.CProofsHist Tree.CProofsJoin Tree.CProofsRefine.
From Juniper Require Tree.ProofsRefine.
From Coq Require Import Sorted.

(* ================= A. the clauses on layer S: sessions, any comparison ================= *)

Section C02_sessions.
  Context {K V : Type} (cmp : K -> K -> comparison).
  (* total preorder given as a three-way comparison: cmp a a = Eq, cmp a b = CompOpp (cmp b a),
     Lt transitive, Eq a congruence *)
  Hypothesis laws : cmp_laws cmp.

  Notation ksorted := (ksorted (V:=V) cmp).
  Notation has_key := (has_key (V:=V) cmp).
  Notation ai_new := (ai_new K V cmp).
  Notation ai_next := (ai_next K V cmp).
  (* ai_run m a rs: the trace of iterator state a over the session rs started on map m: for each
     round us of rs, apply the mutations us (sm_put / sm_del of any keys), then call ai_next;
     each entry records (map at that moment, iterator state before, result).
     dcmp cmp rev: the comparison read in the direction of travel (cmp for Range, flipped for
     RangeReverse). *)

  (* the yielded keys are strictly monotone in the direction of travel and inside both bounds *)
  Theorem C02_monotone_in_bounds : forall rev lo hi (m0 : list (K * V)) rs,
      ksorted m0 ->
      let ys := yields (ai_run cmp m0 (ai_new rev lo hi m0) rs) in
      StronglySorted (fun y1 y2 => dcmp cmp rev (fst y1) (fst y2) = Lt) ys
      /\ Forall (fun y => in_range K cmp lo hi (fst y) = true) ys.
  Proof. exact (ai_run_monotone_in_bounds cmp laws). Qed.

  (* every yield is an entry of the map at that moment: present, with its current value *)
  Theorem C02_present_current_value : forall rs (m : list (K * V)) a,
      ksorted m ->
      Forall (fun e => forall kv, e_out e = Some kv ->
                       In kv (e_map e) /\ sm_find K V cmp (e_map e) (fst kv) = Some kv)
             (ai_run cmp m a rs).
  Proof. exact (ai_run_present_current_value cmp laws). Qed.

  (* once Next reports exhaustion it does so forever, whatever the later mutations *)
  Theorem C02_sticky_end : forall rs (m : list (K * V)) a tr1 e tr2,
      ksorted m ->
      ai_run cmp m a rs = tr1 ++ e :: tr2 -> e_out e = None ->
      Forall (fun e' => e_out e' = None) tr2.
  Proof. exact (ai_run_sticky_end cmp laws). Qed.

  (* a key (class) inside the bounds that is in the map at creation and at every Next call up to
     one that yields a key strictly beyond it was yielded by an earlier Next call *)
  Theorem C02_no_skip_of_persistent_keys : forall rev lo hi (m0 : list (K * V)) rs x tr mn an y,
      ksorted m0 ->
      in_range K cmp lo hi x = true ->
      has_key m0 x ->
      Forall (fun e => has_key (e_map e) x) (ai_run cmp m0 (ai_new rev lo hi m0) rs) ->
      ai_run cmp m0 (ai_new rev lo hi m0) rs = tr ++ [(mn, an, Some y)] ->
      dcmp cmp rev x (fst y) = Lt ->
      exists e, In e tr /\ hits cmp x e.
  Proof. exact (ai_run_no_skip cmp laws). Qed.

  (* a key inside the bounds, at or beyond the pending position (the key the iterator yields next)
     and in the map at every later Next call, is yielded before the iterator reports exhaustion *)
  Theorem C02_inserted_beyond_next_is_yielded : forall (m : list (K * V)) a p x rs tr mn an,
      ksorted m ->
      ai_cut a = false -> ai_pos a = Some p -> dcmp cmp (ai_rev a) p x <> Gt ->
      in_range K cmp (ai_lo a) (ai_hi a) x = true ->
      Forall (fun e => has_key (e_map e) x) (ai_run cmp m a rs) ->
      ai_run cmp m a rs = tr ++ [(mn, an, None)] ->
      exists e, In e tr /\ hits cmp x e.
  Proof. exact (ai_run_inserted_beyond cmp laws). Qed.

  (* the literal reading: x strictly beyond the key y that the next call yields *)
  Theorem C02_inserted_beyond_next_yield : forall (m : list (K * V)) a us rs x y tr mn an,
      ksorted m ->
      let m1 := app_muts cmp m us in
      let a1 := fst (ai_next m1 a) in
      snd (ai_next m1 a) = Some y ->
      dcmp cmp (ai_rev a) (fst y) x = Lt ->
      has_key m1 x ->
      in_range K cmp (ai_lo a) (ai_hi a) x = true ->
      Forall (fun e => has_key (e_map e) x) (ai_run cmp m1 a1 rs) ->
      ai_run cmp m1 a1 rs = tr ++ [(mn, an, None)] ->
      exists e, In e tr /\ hits cmp x e.
  Proof. exact (ai_run_inserted_beyond_next_yield cmp laws). Qed.

  (* on an unchanging map the iterator drains exactly the range *)
  Theorem C02_drain_unchanged_S : forall rev lo hi (m : list (K * V)) fuel,
      ksorted m -> (length m < fuel)%nat ->
      ai_drain K V cmp fuel m (ai_new rev lo hi m)
      = Some (if rev then sm_range_rev K V cmp lo hi m else sm_range K V cmp lo hi m).
  Proof. exact (ai_drain_range cmp laws). Qed.
End C02_sessions.

Print Assumptions C02_monotone_in_bounds.
Print Assumptions C02_present_current_value.
Print Assumptions C02_sticky_end.
Print Assumptions C02_no_skip_of_persistent_keys.
Print Assumptions C02_inserted_beyond_next_is_yielded.
Print Assumptions C02_inserted_beyond_next_yield.
Print Assumptions C02_drain_unchanged_S.

(* ================= A'. the clauses on histories (Hist.run_S) ================= *)

(* every key order of the checks satisfies the laws *)
Theorem C02_mode_cmp_laws : forall mode, cmp_laws (mode_cmp mode).
Proof. exact mode_cmp_laws. Qed.

Section C02_histories_S.
  Variable mode : Z.
  Notation cmp := (mode_cmp mode).
  (* ops = ops1 ++ TIterNew rev lo hi :: ops2.  The iterator created there has number
     count_new ops1; hist_trace is its trace over ops2: one entry (S map at that moment, iterator
     state before, result) per TIterNext of that iterator, computed by the interpreter step_S. *)

  (* the trace IS a session trace of ai_new on the map at creation ... *)
  Theorem C02_hist_trace_is_session : forall ops1 rev lo hi ops2,
      let m1 := s_m (hist_st mode ops1 rev lo hi) in
      hist_trace mode ops1 rev lo hi ops2 =
      ai_run cmp m1 (ai_new Z Z cmp rev lo hi m1) (rounds_S (count_new ops1) ops2 []).
  Proof. exact (hist_trace_session mode). Qed.

  (* ... and its results are the outputs run_S shows at the TIterNext positions of that iterator *)
  Theorem C02_hist_trace_outputs : forall ops1 rev lo hi ops2,
      iter_outs (count_new ops1) ops2
        (skipn (S (length ops1)) (run_S mode (ops1 ++ TIterNew rev lo hi :: ops2)))
      = map entry_out (hist_trace mode ops1 rev lo hi ops2).
  Proof. exact (hist_trace_outs mode). Qed.

  Theorem C02_hist_monotone_in_bounds : forall ops1 rev lo hi ops2,
      let ys := yields (hist_trace mode ops1 rev lo hi ops2) in
      StronglySorted (fun y1 y2 => dcmp cmp rev (fst y1) (fst y2) = Lt) ys
      /\ Forall (fun y => in_range Z cmp lo hi (fst y) = true) ys.
  Proof. exact (hist_monotone_in_bounds mode). Qed.

  Theorem C02_hist_present_current_value : forall ops1 rev lo hi ops2,
      Forall (fun e => forall kv, e_out e = Some kv ->
                In kv (e_map e) /\ sm_find Z Z cmp (e_map e) (fst kv) = Some kv)
             (hist_trace mode ops1 rev lo hi ops2).
  Proof. exact (hist_present_current_value mode). Qed.

  Theorem C02_hist_sticky_end : forall ops1 rev lo hi ops2 tr1 e tr2,
      hist_trace mode ops1 rev lo hi ops2 = tr1 ++ e :: tr2 ->
      e_out e = None ->
      Forall (fun e' => e_out e' = None) tr2.
  Proof. exact (hist_sticky_end mode). Qed.

  Theorem C02_hist_no_skip : forall ops1 rev lo hi ops2 x tr' mn an y tr3,
      hist_trace mode ops1 rev lo hi ops2 = tr' ++ (mn, an, Some y) :: tr3 ->
      in_range Z cmp lo hi x = true ->
      has_key cmp (s_m (hist_st mode ops1 rev lo hi)) x ->
      Forall (fun e : zentry => has_key cmp (e_map e) x) tr' ->
      has_key cmp mn x ->
      dcmp cmp rev x (fst y) = Lt ->
      exists e, In e tr' /\ hits cmp x e.
  Proof. exact (hist_no_skip mode). Qed.

  Theorem C02_hist_inserted_beyond : forall ops1 rev lo hi ops2 x p tr0 seg mn an tr3 e1,
      hist_trace mode ops1 rev lo hi ops2 = tr0 ++ seg ++ (mn, an, None) :: tr3 ->
      hd_error (seg ++ [(mn, an, None)]) = Some e1 ->
      ai_cut (e_it e1) = false -> ai_pos (e_it e1) = Some p ->
      dcmp cmp rev p x <> Gt ->
      in_range Z cmp lo hi x = true ->
      Forall (fun e : zentry => has_key cmp (e_map e) x) (seg ++ [(mn, an, None)]) ->
      exists e, In e seg /\ hits cmp x e.
  Proof. exact (hist_inserted_beyond mode). Qed.

  (* stated with run_S, operations and positions only *)
  Theorem C02_run_S_sticky_end : forall ops j i1 i2,
      (i1 < i2)%nat ->
      nth_error ops i1 = Some (TIterNext j) ->
      nth_error ops i2 = Some (TIterNext j) ->
      nth_error (run_S mode ops) i1 = Some OEnd ->
      nth_error (run_S mode ops) i2 = Some OEnd.
  Proof. exact (run_S_sticky_end mode). Qed.

  Theorem C02_run_S_monotone : forall ops1 rev lo hi ops2 i1 i2 k1 v1 k2 v2,
      let ops := ops1 ++ TIterNew rev lo hi :: ops2 in
      let j := count_new ops1 in
      (i1 < i2)%nat ->
      nth_error ops i1 = Some (TIterNext j) ->
      nth_error ops i2 = Some (TIterNext j) ->
      nth_error (run_S mode ops) i1 = Some (OPair k1 v1) ->
      nth_error (run_S mode ops) i2 = Some (OPair k2 v2) ->
      dcmp cmp rev k1 k2 = Lt
      /\ in_range Z cmp lo hi k1 = true /\ in_range Z cmp lo hi k2 = true.
  Proof. exact (run_S_monotone mode). Qed.
End C02_histories_S.

Print Assumptions C02_mode_cmp_laws.
Print Assumptions C02_hist_trace_is_session.
Print Assumptions C02_hist_trace_outputs.
Print Assumptions C02_hist_monotone_in_bounds.
Print Assumptions C02_hist_present_current_value.
Print Assumptions C02_hist_sticky_end.
Print Assumptions C02_hist_no_skip.
Print Assumptions C02_hist_inserted_beyond.
Print Assumptions C02_run_S_sticky_end.
Print Assumptions C02_run_S_monotone.

(* ================= B. C02_total: one Next of layer M ================= *)

Section C02_step.
  Context {K V : Type} (cmp : K -> K -> comparison) (kzero : K).
  Hypothesis laws : cmp_laws cmp.

  (* tree_ok: the root is the empty leaf or every node has a key and is a leaf or has keys + 1
     children; node identities are pairwise distinct; the in-order key list is strictly sorted
     (implied by the invariant wf of C01/C03: C02_wf_tree_ok below).
     iter_ok: the cursor invariant (a parked cursor has index >= 0, generation <= the tree's, and
     if its generation is the tree's it points at a live slot holding a key equivalent to c.k),
     and the While flag is unset when there is no While.
     iter_next never returns Panic, and re-establishes the invariant.  There is no fuel anywhere
     in Cursor.v: every function is a structural recursion or not recursive, so "never spins" is
     a property of the definitions (Coq accepts them as total functions without fuel). *)
  Theorem C02_total : forall (t : @btree K V) (it : iter K),
      tree_ok cmp t -> iter_ok cmp t it ->
      exists it' r, iter_next K V cmp t it = Ok (it', r) /\ iter_ok cmp t it'
                    /\ it_rev it' = it_rev it /\ it_far it' = it_far it.
  Proof. exact (iter_next_total cmp laws). Qed.

  (* one Next of a model iterator related to an abstract iterator: same result up to key
     equivalence (equal when the cursor's key is the stored one), relation preserved *)
  Theorem C02_next_simulation : forall (t : @btree K V) (it : iter K) (a : aiter K),
      tree_ok cmp t -> iter_rel cmp t it a ->
      exists it' r,
        iter_next K V cmp t it = Ok (it', r)
        /\ iter_rel cmp t it' (fst (ai_next K V cmp (inorder (root t)) a))
        /\ out_rel cmp r (snd (ai_next K V cmp (inorder (root t)) a))
        /\ (cur_exact t (it_c it) ->
            r = snd (ai_next K V cmp (inorder (root t)) a) /\ cur_exact t (it_c it')).
  Proof. exact (iter_next_sim cmp laws). Qed.

  (* creation: Range / RangeReverse never panic and establish the relation with ai_new *)
  Theorem C02_range_simulation : forall (t : @btree K V) lo hi,
      tree_ok cmp t ->
      exists it, range K V cmp kzero t lo hi = Ok it
        /\ iter_rel cmp t it (ai_new K V cmp false lo hi (inorder (root t)))
        /\ cur_exact t (it_c it).
  Proof. exact (range_sim cmp kzero laws). Qed.

  Theorem C02_range_rev_simulation : forall (t : @btree K V) lo hi,
      tree_ok cmp t ->
      exists it, range_rev K V cmp kzero t lo hi = Ok it
        /\ iter_rel cmp t it (ai_new K V cmp true lo hi (inorder (root t)))
        /\ cur_exact t (it_c it).
  Proof. exact (range_rev_sim cmp kzero laws). Qed.

  (* mutations keep every parked cursor inside the invariant *)
  Theorem C02_put_keeps_iterators : forall (vzero : V) maxKVs (t : @btree K V) it a k v,
      root_ok (root t) -> iter_rel cmp t it a ->
      iter_rel cmp (put K V cmp kzero vzero maxKVs t k v) it a.
  Proof. exact (fun vzero maxKVs => iter_rel_put cmp kzero vzero maxKVs). Qed.

  Theorem C02_delete_keeps_iterators : forall (vzero : V) minKVs (t : @btree K V) it a k,
      iter_rel cmp t it a ->
      iter_rel cmp (delete K V cmp kzero vzero minKVs t k) it a.
  Proof. exact (fun vzero minKVs => iter_rel_delete cmp kzero vzero minKVs). Qed.

  (* the well-formedness invariant of C01 / C03 implies tree_ok *)
  Theorem C02_wf_tree_ok : forall minKVs maxKVs (t : @btree K V),
      (1 <= minKVs)%nat -> ProofsRefine.wf cmp minKVs maxKVs t -> tree_ok cmp t.
  Proof. exact (fun minKVs maxKVs t Hmin => wf_tree_ok cmp laws minKVs maxKVs Hmin t). Qed.
End C02_step.

Print Assumptions C02_total.
Print Assumptions C02_next_simulation.
Print Assumptions C02_range_simulation.
Print Assumptions C02_range_rev_simulation.
Print Assumptions C02_put_keeps_iterators.
Print Assumptions C02_delete_keeps_iterators.
Print Assumptions C02_wf_tree_ok.

(* ================= C. C02_refinement: all histories ================= *)

Section C02_histories_M.
  Variables minKVs maxKVs : nat.
  (* guards on the regenerated constants of btree.go *)
  Hypothesis Hmin : (1 <= minKVs)%nat.
  Hypothesis Hmax : (2 * minKVs <= maxKVs)%nat.
  Variable mode : Z.
  Notation cmp := (mode_cmp mode).
  Notation run_M := (run_M minKVs maxKVs mode).

  (* layer M simulates layer S: same end / yield pattern, equal values, equivalent keys.
     (TShape / TGetCost probes are not answered by layer S; they change no state.) *)
  Theorem C02_refinement : forall ops,
      forallb (fun o => negb (is_shape o || is_cost o)) ops = true ->
      outs_equiv mode (run_M ops) (run_S mode ops) = true.
  Proof. exact (refinement minKVs maxKVs Hmin Hmax mode). Qed.

  (* with probes anywhere: every Next answers the same in both layers *)
  Theorem C02_next_outputs_agree : forall ops i j,
      nth_error ops i = Some (TIterNext j) ->
      exists x y, nth_error (run_M ops) i = Some x /\ nth_error (run_S mode ops) i = Some y
                  /\ tout_eqb (fun a b => is_eq (cmp a b)) x y = true.
  Proof. exact (next_outputs_agree minKVs maxKVs Hmin Hmax mode). Qed.

  (* C02_total on histories: no operation of any history panics in layer M ... *)
  Theorem C02_total_histories : forall ops, ~ In OPanic (run_M ops).
  Proof. exact (no_panic minKVs maxKVs Hmin Hmax mode). Qed.

  (* ... because every reachable tree is tree_ok and every live iterator satisfies iter_ok *)
  Theorem C02_reachable_ok : forall ops,
      let st := fst (steps_M minKVs maxKVs mode m0 ops) in
      tree_ok cmp (m_t st) /\ Forall (iter_ok cmp (m_t st)) (m_its st).
  Proof. exact (reachable_ok minKVs maxKVs Hmin Hmax mode). Qed.

  (* clauses read off the outputs of layer M *)
  Theorem C02_run_M_sticky_end : forall ops j i1 i2,
      (i1 < i2)%nat ->
      nth_error ops i1 = Some (TIterNext j) ->
      nth_error ops i2 = Some (TIterNext j) ->
      nth_error (run_M ops) i1 = Some OEnd ->
      nth_error (run_M ops) i2 = Some OEnd.
  Proof. exact (run_M_sticky_end minKVs maxKVs Hmin Hmax mode). Qed.

  Theorem C02_run_M_monotone : forall ops1 rev lo hi ops2 i1 i2 k1 v1 k2 v2,
      let ops := ops1 ++ TIterNew rev lo hi :: ops2 in
      let j := count_new ops1 in
      (i1 < i2)%nat ->
      nth_error ops i1 = Some (TIterNext j) ->
      nth_error ops i2 = Some (TIterNext j) ->
      nth_error (run_M ops) i1 = Some (OPair k1 v1) ->
      nth_error (run_M ops) i2 = Some (OPair k2 v2) ->
      dcmp cmp rev k1 k2 = Lt
      /\ in_range Z cmp lo hi k1 = true /\ in_range Z cmp lo hi k2 = true.
  Proof. exact (run_M_monotone minKVs maxKVs Hmin Hmax mode). Qed.

  (* the unmodified-tree instance: what step_M answers to TRange / TRangeRev *)
  Theorem C02_range_unmodified : forall (st : mstate) lo hi,
      ProofsRefine.wf cmp minKVs maxKVs (m_t st) ->
      step_M minKVs maxKVs mode st (TRange lo hi)
      = (st, OList (sm_range Z Z cmp lo hi (inorder (root (m_t st))))).
  Proof. exact (step_M_range minKVs maxKVs Hmin mode). Qed.

  Theorem C02_range_rev_unmodified : forall (st : mstate) lo hi,
      ProofsRefine.wf cmp minKVs maxKVs (m_t st) ->
      step_M minKVs maxKVs mode st (TRangeRev lo hi)
      = (st, OList (sm_range_rev Z Z cmp lo hi (inorder (root (m_t st))))).
  Proof. exact (step_M_range_rev minKVs maxKVs Hmin mode). Qed.
End C02_histories_M.

Print Assumptions C02_refinement.
Print Assumptions C02_next_outputs_agree.
Print Assumptions C02_total_histories.
Print Assumptions C02_reachable_ok.
Print Assumptions C02_run_M_sticky_end.
Print Assumptions C02_run_M_monotone.
Print Assumptions C02_range_unmodified.
Print Assumptions C02_range_rev_unmodified.

(* ---- the shipped constants (regenerated from the Go source on every run) meet the guards ---- *)

Theorem C02_params_ok : (1 <= minK)%nat /\ (2 * minK <= maxK)%nat.
Proof. vm_compute. split; repeat constructor. Qed.

Theorem C02_refinement_shipped : forall mode ops,
    forallb (fun o => negb (is_shape o || is_cost o)) ops = true ->
    outs_equiv mode (run_M_shipped mode ops) (run_S mode ops) = true.
Proof. exact (C02_refinement minK maxK (proj1 C02_params_ok) (proj2 C02_params_ok)). Qed.

Theorem C02_total_shipped : forall mode ops, ~ In OPanic (run_M_shipped mode ops).
Proof. exact (C02_total_histories minK maxK (proj1 C02_params_ok) (proj2 C02_params_ok)). Qed.

Print Assumptions C02_params_ok.
Print Assumptions C02_refinement_shipped.
Print Assumptions C02_total_shipped.

(* ================= non-vacuity ================= *)

(* A live forward and a live reverse iterator (both unbounded) survive:
   - a root split: 15 keys fill the root leaf (id 0); both iterators are created and parked in it;
     Put 15 splits it into left (id 0, keys 0..7) / right (id 1, keys 9..15) under a new root (id 2):
     the reverse iterator's slot (node 0, index 13) is gone, it re-seeks;
   - a steal and a merge of the nodes they are parked in: Delete 15 rotates a key from the left
     node (forward iterator parked there) into the right node (reverse iterator parked there);
     Delete 14 merges right into left and collapses the root: node 1 is unlinked;
   - emptying the tree: both report the end, and keep doing so after a later Put. *)
Definition c02_h1 : list top :=
  puts (seq 0 15) ++ [TIterNew false BUnb BUnb; TIterNew true BUnb BUnb; TIterNext 0; TIterNext 1].
Definition c02_h2 : list top := c02_h1 ++ [TPut 15 150; TIterNext 0; TIterNext 1].
Definition c02_h3 : list top := c02_h2 ++ [TDel 15; TDel 14; TIterNext 0; TIterNext 1].
Definition c02_h4 : list top :=
  c02_h3 ++ dels (map Z.of_nat (seq 0 14))
         ++ [TLen; TIterNext 0; TIterNext 1; TPut 100 1; TIterNext 0; TIterNext 1].

Example C02_history_runs :
  run_M_shipped 0 c02_h4 = run_S 0 c02_h4
  /\ skipn 15 (run_S 0 c02_h4) =
     [OUnit; OUnit; OPair 0 0; OPair 14 140;
      OUnit; OPair 1 10; OPair 13 130;
      OUnit; OUnit; OPair 2 20; OPair 12 120]
     ++ repeat OUnit 14 ++ [OInt 0; OEnd; OEnd; OUnit; OEnd; OEnd]
  (* node identities: one leaf; split: new root 2 over 0 and 1; merged back into 0; still 0 *)
  /\ (ids_after c02_h1, ids_after c02_h2, ids_after c02_h3, ids_after c02_h4)
     = ([0], [2; 0; 1], [0], [0])%nat
  (* where the two cursors are parked (node id, index) after each phase *)
  /\ map (fun it => (curr (it_c it), ci (it_c it))) (m_its (fst (steps_M minK maxK 0 m0 c02_h1)))
     = [(Some 0%nat, 1); (Some 0%nat, 13)]
  /\ map (fun it => (curr (it_c it), ci (it_c it))) (m_its (fst (steps_M minK maxK 0 m0 c02_h2)))
     = [(Some 0%nat, 2); (Some 1%nat, 3)].
Proof. vm_compute. repeat split; reflexivity. Qed.

(* the same history under the coarse order (keys equivalent modulo 4): the two layers agree up to
   key equivalence *)
Example C02_history_coarse :
  outs_equiv 2 (run_M_shipped 2 (no_probe (c02_h4 ++ h_coarse)))
               (run_S 2 (no_probe (c02_h4 ++ h_coarse))) = true.
Proof.
  apply C02_refinement_shipped. vm_compute. reflexivity.
Qed.

(* an instance of the hypotheses of the no-skip and inserted-beyond clauses: see
   CProofsHist.ex_no_skip / ex_inserted_beyond *)
