(* C05 — xheap.Heap behaves as a multiset with minimum extraction and xheap.PriorityQueue as a
   map from key to priority with minimum extraction, for every history, every initial slice
   and every ordering that is a strict weak order (given as less, or as compare through
   less a b := compare(a,b) < 0).  Pop and Peek on an empty heap or queue panic.
   Only statements live here; each is closed by [exact] of a lemma proved in Heap/Proofs.v. *)
From Coq Require Import Permutation Sorted.
From Juniper Require Import Common.Base Heap.Model Heap.Spec Heap.Corr Heap.Proofs.

Section C05_heap.
  Variable less : Z -> Z -> bool.
  Hypothesis SWO : strict_weak less.

  (* invariant over all histories from any initial slice: a[i] is never less than a[parent i] *)
  Theorem C05_heap_ordered : forall initial ops,
      heap_ordered less (ha (hh (hrun_state less initial ops))).
  Proof. exact (heap_ordered_reach less SWO). Qed.

  (* every call returns what the ideal multiset (initial + pushes - pops) allows: Len its size,
     Peek/Pop an element of it that no element is less than (Pop removes one occurrence),
     Pop/Peek panic when it is empty, Iterate some enumeration of it *)
  Theorem C05_heap_refines_multiset : forall initial ops,
      hspec_run less initial ops (hrun less initial ops).
  Proof. exact (heap_refines_multiset less SWO). Qed.

  (* the array is a permutation of the ghost multiset after every history *)
  Theorem C05_heap_contents : forall initial ops,
      Permutation (ha (hh (hrun_state less initial ops)))
                  (ms_run initial ops (hrun less initial ops)).
  Proof. exact (heap_contents_multiset less SWO). Qed.

  (* Pop and Peek panic exactly on the empty heap, and leave it unchanged *)
  Theorem C05_empty_panics : forall initial ops,
      let s := hrun_state less initial ops in
      (snd (hstep less s HPop) = OPanic <-> ha (hh s) = []) /\
      (snd (hstep less s HPeek) = OPanic <-> ha (hh s) = []) /\
      (snd (hstep less s HPop) = OPanic -> fst (hstep less s HPop) = s) /\
      fst (hstep less s HPeek) = s.
  Proof. exact (heap_empty_panics less). Qed.

  (* popping until empty returns all the contents in non-decreasing order *)
  Theorem C05_drain_sorted : forall initial ops,
      let s := hrun_state less initial ops in
      let n := length (ha (hh s)) in
      exists xs, hrun_from less s (repeat HPop n) = map OVal xs /\
                 Permutation xs (ha (hh s)) /\ nondecreasing less xs /\
                 ha (hh (hrun_state_from less s (repeat HPop n))) = [].
  Proof. exact (heap_drain_sorted less SWO). Qed.
End C05_heap.

Section C05_pq.
  Variable pless : Z -> Z -> bool.
  Hypothesis SWO : strict_weak pless.

  (* invariants over all histories from any initial list: m's domain is exactly the keys in the
     array, m k is the position of k, keys are pairwise distinct; and the heap order *)
  Theorem C05_pq_index_exact : forall initial ops,
      let q := qq (qrun_state pless initial ops) in
      index_exact Z.eqb (ha q) (hs q) /\ heap_ordered (@kpless Z Z pless) (ha q).
  Proof. exact (queue_inv_reach pless SWO). Qed.

  (* every call returns what the ideal finite map allows: Update inserts or re-prioritises,
     Remove deletes, Contains / Priority (zero when absent) / Len read the map, Peek/Pop return
     a present key whose current priority no present priority is less than (Pop removes it),
     Pop/Peek panic when it is empty.  The map starts as the first occurrences of initial. *)
  Theorem C05_pq_refines_map : forall initial ops,
      qspec_run pless (first_occ initial) ops (qrun pless initial ops).
  Proof. exact (queue_refines_map pless SWO). Qed.

  (* a queue built from an initial list holds each distinct key once, with the priority of its
     first occurrence *)
  Theorem C05_pq_new_first_occ : forall initial,
      let a := ha (qq (qinit pless initial)) in
      NoDup (map fst a) /\ (forall k, i_get k a = i_get k initial) /\
      Permutation a (first_occ initial).
  Proof. exact (queue_new_first_occ pless SWO). Qed.

  Theorem C05_pq_empty_panics : forall initial ops,
      let s := qrun_state pless initial ops in
      (snd (qstep pless s QPop) = OPanic <-> ha (qq s) = []) /\
      (snd (qstep pless s QPeek) = OPanic <-> ha (qq s) = []) /\
      (snd (qstep pless s QPop) = OPanic -> fst (qstep pless s QPop) = s) /\
      fst (qstep pless s QPeek) = s.
  Proof. exact (queue_empty_panics pless SWO). Qed.

  (* popping until empty returns every key once, priorities in non-decreasing order *)
  Theorem C05_pq_drain_sorted : forall initial ops,
      let s := qrun_state pless initial ops in
      let n := length (ha (qq s)) in
      exists kps, qrun_from pless s (repeat QPop n) = map (fun x => OVal (fst x)) kps /\
                  Permutation kps (ha (qq s)) /\ nondecreasing pless (map snd kps) /\
                  ha (qq (qrun_state_from pless s (repeat QPop n))) = [].
  Proof. exact (queue_drain_sorted pless SWO). Qed.
End C05_pq.

(* the orderings exercised by the harness (less, reversed, coarse with many ties, and the two
   compare-based ones) satisfy the hypothesis *)
Theorem C05_orders_strict_weak : forall mode, strict_weak (order_of mode).
Proof. exact order_of_swo. Qed.

Print Assumptions C05_heap_ordered.
Print Assumptions C05_heap_refines_multiset.
Print Assumptions C05_heap_contents.
Print Assumptions C05_empty_panics.
Print Assumptions C05_drain_sorted.
Print Assumptions C05_pq_index_exact.
Print Assumptions C05_pq_refines_map.
Print Assumptions C05_pq_new_first_occ.
Print Assumptions C05_pq_empty_panics.
Print Assumptions C05_pq_drain_sorted.
Print Assumptions C05_orders_strict_weak.

(* ---- translator tie: the index arithmetic of internal/heap (parent, children), translated from the Go
        source on every run (Generated/Funcs.v), is what the model uses ---- *)
From Juniper Require Import Generated.Funcs Translated.FuncsOK.

Theorem C05_translated_parent : forall i, go_heap_parent i = Heap.Model.parent i.
Proof. exact go_heap_parent_ok. Qed.

Theorem C05_translated_children : forall i, go_heap_children i = Heap.Model.children i.
Proof. exact go_heap_children_ok. Qed.

Print Assumptions C05_translated_parent.
Print Assumptions C05_translated_children.
