"""Large-size, self-checking scenarios (harness/scale.go): oracle-only parts shared by several checks."""
from vlib import SeqSpec


class ScaleSpec(SeqSpec):
    single_round = True     # the case list does not depend on the scale factor
    procs = 4               # scenarios are dealt out to 4 runner processes (several of them mostly wait)
    component = "scale"
    checkers = {}

    def __init__(self, kinds):
        self.kinds = kinds

    def shrinkable(self):
        return False

    def coq_case(self, case, obs):
        return ""

    def gen(self, rng, tier, scale):
        big = tier == "thorough" or getattr(self, "force_big", False)
        cases = []

        def add(cfg):
            cases.append({"component": "scale", "ops": [], "cfg": cfg})
        if "tree" in self.kinds:
            sizes = [1200, 1500, 2000, 9000, 12400] + ([20000, 40000] if big else [])
            combos = [(1200, "desc", "max-then-every-third"), (1500, "asc", "top"), (2000, "asc", "top"), (9000, "desc", "bottom"),
                      (12400, "asc", "rand"), (3000, "rand", "rand")]
            if big:
                combos += [(n, o, d) for n in (20000, 40000) for o in ("asc", "desc", "rand") for d in ("top", "bottom", "rand")]
            for n, o, d in combos:
                add({"kind": "tree", "n": n, "order": o, "drain": d, "seed": rng.randrange(1 << 30)})
        if "tree-iter-gen" in self.kinds:
            for b in [1, 255, 256, 257, 65535, 65536, 65537] + ([131072, 1 << 20] if big else []):
                for rev in (False, True):
                    add({"kind": "tree-iter-gen", "burst": b, "rev": rev})
        if "heap" in self.kinds:
            for n, o, init in [(9000, "asc", False), (12000, "rand", True), (20000, "desc", False)] + ([(100000, "rand", True), (70000, "asc", False)] if big else []):
                add({"kind": "heap", "n": n, "order": o, "initial": init, "seed": rng.randrange(1 << 30)})
        if "heap" in self.kinds:
            add({"kind": "pq-nan-keys"})
        if "last" in self.kinds:
            # long inputs with short tails, and LONG tails (a ring buffer that is allocated or grown in pieces)
            for n, k in [(65536, 3), (65537, 3), (70000, 5), (131075, 2), (1025, 1025), (2199, 1100), (5000, 4096),
                         (3000, 5000), (70000, 65537)] + ([(1 << 20, 7), (1 << 20, (1 << 19) + 1)] if big else []):
                add({"kind": "last", "n": n, "k": k})
        if "do" in self.kinds:
            for n, p in [(4097, 2), (10001, 3), (40000, 0), (70001, 4)] + ([(300000, 7)] if big else []):
                add({"kind": "do", "n": n, "p": p})
            for n, p in [(6, 2), (50, 3), (300, 4)]:
                add({"kind": "do-overlap", "n": n, "p": p})
            add({"kind": "do-empty"})
            add({"kind": "do-nested-last", "limit_s": 30})
        if "chans-merge" in self.kinds:
            for n in [255, 256, 257, 300] + ([600] if big else []):
                add({"kind": "chans-merge", "n": n, "per": 2})
            for n in [0, 1, 2, 3, 4, 5, 9]:
                add({"kind": "chans-merge-iface", "n": n})
            add({"kind": "smerge-many", "n": 65537 if not big else 140000, "limit_s": 120})
            for n in [4, 7]:
                add({"kind": "chans-merge-concurrent", "n": n, "rounds": 300 if big else 30})
        if "mapiter" in self.kinds:
            for st in (False, True):
                add({"kind": "mapiter", "n": 40000, "p": 2, "buf": 4, "delay": [100, 32767, 32768], "stream": st})
                add({"kind": "mapiter", "n": 70000, "p": 3, "buf": 2, "delay": [65535, 65536], "stream": st})
        if "pipe" in self.kinds:
            for n in [255, 256, 257, 300, 512]:
                add({"kind": "pipe", "n": n})
        hold = 5500 if big else 2600        # ms: how long "still blocked" / "still idle" is observed
        if "tree-gc" in self.kinds:
            combos = [(40, "desc", "top", 0, False), (300, "asc", "bottom", 3, False), (1200, "rand", "rand", 10, False),
                      (600, "asc", "everyother", 0, True), (130, "asc", "top", 120, False), (2500, "desc", "bottom", 0, True)]
            if big:
                combos += [(n, o, d, k, True) for n in (17, 260, 5000, 20000) for o in ("asc", "rand") for d in ("top", "rand", "everyother") for k in (0, 9)]
            for n, o, d, k, rf in combos:
                add({"kind": "tree-gc", "n": n, "order": o, "drain": d, "keep": k, "refill": rf, "reads": False, "seed": rng.randrange(1 << 30)})
                add({"kind": "tree-gc", "n": n, "order": o, "drain": d, "keep": k, "refill": rf, "reads": True, "seed": rng.randrange(1 << 30)})
        if "deque-gc" in self.kinds:
            add({"kind": "deque-gc", "style": "offset-shrink", "steps": 0, "drain": False, "seed": 1})
            for i in range(12 if big else 5):
                add({"kind": "deque-gc", "style": "random", "steps": rng.choice([40, 200, 1500]), "drain": rng.random() < 0.5, "seed": rng.randrange(1 << 30)})
                add({"kind": "deque-gc", "style": "offset-shrink", "steps": rng.choice([30, 300]), "drain": True, "seed": rng.randrange(1 << 30)})
        if "c18-extras" in self.kinds:
            add({"kind": "watchable-nil"})
            add({"kind": "lazy-panic"})
            add({"kind": "xmap-swap-storm", "rounds": 4000 if big else 300, "k": 8})
            add({"kind": "xmap-swap-storm", "rounds": 4000 if big else 300, "k": 3})
        if "mapstream-close-busy" in self.kinds:
            for who in ("f", "src"):
                for p in (1, 3):
                    add({"kind": "mapstream-close-busy", "who": who, "p": p, "hold_ms": hold if p == 3 else 40})
        if "mapstream-ferr-storm" in self.kinds:
            add({"kind": "mapstream-two-instances"})
            add({"kind": "mapstream-ferr-storm", "trials": 4000 if big else 200, "p": 24})
            add({"kind": "mapstream-ferr-storm", "trials": 4000 if big else 200, "p": 3})
        if "pipe-trysend-storm" in self.kinds:
            for k, cap, f in [(8, 1, 1.0), (6, 2, 1.0), (12, 3, 0.4)]:
                add({"kind": "pipe-trysend-storm", "rounds": int((3000 if big else 150) * f), "k": k, "cap": cap})
        if "pipe-idle-next" in self.kinds:
            add({"kind": "pipe-two-instances"})
            add({"kind": "pipe-send-storm", "rounds": 2000 if big else 150, "k": 8, "cap": 1})
            add({"kind": "pipe-send-storm", "rounds": 2000 if big else 150, "k": 6, "cap": 2})
            add({"kind": "pipe-close-error-storm", "rounds": 400000 if big else 40000})
            add({"kind": "pipe-idle-next", "cap": 0, "hold_ms": hold})
            add({"kind": "pipe-idle-next", "cap": 2, "hold_ms": 40})
        return cases

    def oracle(self, case, obs):
        r = obs["obs"][0]
        if not r.get("ok"):
            kind = case["cfg"]["kind"]
            msg = r.get("msg", "")
            cls = "watchdog" if msg.startswith("watchdog") else "panic" if msg.startswith("panic") else "wrong"
            return [("%s:%s" % (kind, cls), "large-size scenario %r: %s" % (case["cfg"], msg))]
        return []

    def stats(self, case, obs, acc):
        k = acc.setdefault("kinds", {})
        k[case["cfg"]["kind"]] = k.get(case["cfg"]["kind"], 0) + 1
        h = obs["obs"][0].get("height")
        if h:
            acc["max_tree_height"] = max(acc.get("max_tree_height", 0), h)

    def nontrivial(self, case, obs):
        return True


class Extras19Spec(SeqSpec):
    """C19 extras (oracle-only): WithStack records the whole call stack also when it is deeper than one batch of
    frames; the default-source Sample functions are not grossly biased (a one-sided 8-sigma test per subset: with
    20000 trials a fair sampler fails it with probability < 1e-13 per run)."""
    single_round = True     # the case list does not depend on the scale factor
    component = "extras19"
    checkers = {}

    def shrinkable(self):
        return False

    def coq_case(self, case, obs):
        return ""

    def gen(self, rng, tier, scale):
        cases = [{"component": "extras19", "ops": [], "cfg": {"kind": "withstack-depth", "depth": d}} for d in (5, 60, 64, 70, 200, 1000)]
        trials = 20000 if tier == "quick" else 200000
        for fn in ("Sample", "SampleSlice", "SampleIterator", "SampleStream"):
            for n, k in ((4, 3), (5, 2), (6, 4)):
                cases.append({"component": "extras19", "ops": [], "cfg": {"kind": "sample-freq", "fn": fn, "n": n, "k": k, "trials": trials}})
        return cases

    def oracle(self, case, obs):
        import math
        r = obs["obs"][0]
        cfg = case["cfg"]
        if not r.get("ok"):
            return [("extras:panic", "%r: %s" % (cfg, r.get("msg")))]
        if cfg["kind"] == "withstack-depth":
            if r["frames"] < cfg["depth"]:
                return [("xerrors:WithStack:stack-truncated", "WithStack called at recursion depth %d recorded only %d frames of the recursive function" % (cfg["depth"], r["frames"]))]
            return []
        n, k, trials = cfg["n"], cfg["k"], cfg["trials"]
        nsub = math.comb(n, k)
        p = 1.0 / nsub
        mean, sd = trials * p, math.sqrt(trials * p * (1 - p))
        counts = r["counts"]
        if sum(counts.values()) != trials or any(len(key) != k for key in counts):
            return [("xrand:sample-structure", "%s(n=%d,k=%d): malformed results %r" % (cfg["fn"], n, k, counts))]
        worst = max([abs(c - mean) for c in counts.values()] + ([mean] if len(counts) < nsub else [0]))
        if worst > 8 * sd:
            return [("xrand:grossly-non-uniform", "%s(n=%d,k=%d): over %d trials a subset count deviates from the uniform expectation %.0f by %.0f (> 8 sigma = %.0f); counts %r"
                     % (cfg["fn"], n, k, trials, mean, worst, 8 * sd, counts))]
        return []

    def nontrivial(self, case, obs):
        return True
