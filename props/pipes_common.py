"""Iterator/stream pipelines (C07, C08, C09): generator, Coq printing per Iter/Syntax.v, direct oracles."""
import copy
from vlib import SeqSpec, z, zlist


# ---------------------------------------------------------------- Coq printing

def nat(n):
    return "%d%%nat" % n


def pred_t(p):
    k = p[0]
    if k == "true":
        return "PrTrue"
    if k == "modeq":
        return "(PrModEq %s %s)" % (z(p[1]), z(p[2]))
    if k == "lt":
        return "(PrLt %s)" % z(p[1])
    return "(PrNot %s)" % pred_t(p[1])


def rel_t(r):
    return "RelEq" if r[0] == "eq" else "(RelDiv %s)" % z(r[1])


def fail_t(fl):
    if fl[0] is None:
        return "never_fails"
    return "(mkFailing (Some %s) %s %s)" % (nat(fl[0]), z(fl[1]), "true" if (len(fl) > 2 and fl[2]) else "false")


def src_t(s):
    k = s["k"]
    if k == "slice":
        return "(SSlice %s)" % zlist(s["l"])
    if k == "counter":
        return "(SCounter %s)" % z(s["n"])
    if k == "repeat":
        return "(SRepeat %s %s)" % (z(s["x"]), z(s["n"]))
    if k == "empty":
        return "SEmpty"
    if k == "chan":
        return "(SChan %s)" % zlist(s["l"])
    if k == "error":
        return "(SError %s)" % z(s["e"])
    evs = []
    for e in s["evs"]:
        evs.append("EvPanic" if e[0] == "panic" else {"item": "EvItem", "transient": "EvTransient", "fatal": "EvFatal"}[e[0]] + " " + z(e[1]))
    return "(%s [%s])" % ("SScriptNC" if k == "scriptnc" else "SScript", "; ".join(evs))


def pipe_t(p):
    t = p["t"]
    if t == "src":
        return "(ZSrc %s %s)" % (nat(p["id"]), src_t(p["src"]))
    if t == "peek":
        return "(ZPeek %s)" % pipe_t(p["p"])
    if t == "compact":
        return "(ZCompact %s %s)" % (rel_t(p["r"]), pipe_t(p["p"]))
    if t == "filter":
        return "(ZFilter %s %s %s)" % (pred_t(p["f"]), fail_t(p["fl"]), pipe_t(p["p"]))
    if t == "first":
        return "(ZFirst %s %s)" % (z(p["n"]), pipe_t(p["p"]))
    if t == "flatten":
        return "(ZFlatten [%s])" % "; ".join(pipe_t(q) for q in p["ps"])
    if t == "join":
        return "(ZJoin [%s])" % "; ".join(pipe_t(q) for q in p["ps"])
    if t == "map":
        return "(ZMap (FnAffine %s %s) %s %s)" % (z(p["f"][0]), z(p["f"][1]), fail_t(p["fl"]), pipe_t(p["p"]))
    if t == "while":
        return "(ZWhile %s %s %s)" % (pred_t(p["f"]), fail_t(p["fl"]), pipe_t(p["p"]))
    if t == "flattenslices":
        return "(ZFlattenSlices %s)" % pipe_t(p["p"])
    if t == "chunk":
        return "(LChunk %s %s)" % (z(p["n"]), pipe_t(p["p"]))
    if t == "runs":
        take = "None" if p["take"] is None else "(Some %s)" % nat(p["take"])
        return "(LRuns %s %s %s)" % (rel_t(p["r"]), take, pipe_t(p["p"]))
    raise ValueError(t)


def is_list_pipe(p):
    return p["t"] in ("chunk", "runs")


def prog_t(prog):
    if "reduce" in prog:
        r = prog["reduce"]
        rt = {"collect": "RCollect", "one": "ROne", "equalself": "REqualSelf"}.get(r[0])
        if r[0] == "sum":
            rt = "(RSum %s)" % fail_t(r[1] if len(r) > 1 else [None, 0])
        if r[0] == "last":
            rt = "(RLast %s)" % z(r[1])
        if r[0] == "equal":
            rt = "(REqual [%s])" % "; ".join(pipe_t(q) for q in r[1])
        return "(Reduce %s %s)" % (rt, "true" if prog.get("live", True) else "false")
    ops = []
    for s in prog["steps"]:
        ops.append("CClose" if s[0] == "close" else "CNext %s" % ("true" if s[1] else "false"))
    return "(Steps [%s])" % "; ".join(ops)


def res_t(r):
    k = r[0]
    if k == "item":
        return "(RItem (IZ %s))" % z(r[1])
    if k == "iteml":
        return "(RItem (IL %s))" % zlist(r[1])
    if k == "end":
        return "REnd"
    if k == "err":
        return "(RErr %s)" % z(r[1])
    if k == "panic":
        return "RPanic"
    if k == "unit":
        return "RUnit"
    if k == "val":
        return "(RVal %s)" % zlist(r[1])
    return "RBad"


def obs_t(obs):
    steps = "; ".join("mkStepObs %s %s" % (res_t(s[0]), zlist(s[1])) for s in obs["obs"])
    log = "; ".join(("SevNext " if e[0] == "next" else "SevClose ") + nat(e[1]) for e in obs.get("aux", {}).get("log", []))
    return "(mkRunObs [%s] [%s])" % (steps, log)


# ---------------------------------------------------------------- reference semantics (documentation level)

def fdiv(a, b):
    return a // b


def pred_ev(p, x):
    k = p[0]
    if k == "true":
        return True
    if k == "modeq":
        return x % p[1] == p[2]
    if k == "lt":
        return x < p[1]
    return not pred_ev(p[1], x)


def rel_ev(r, a, b):
    return a == b if r[0] == "eq" else fdiv(a, r[1]) == fdiv(b, r[1])


def src_items(s):
    k = s["k"]
    if k in ("slice", "chan"):
        return list(s["l"])
    if k == "counter":
        return list(range(max(0, s["n"])))
    if k == "repeat":
        return [s["x"]] * max(0, s["n"])
    if k in ("empty", "error"):
        return []
    return [e[1] for e in s["evs"] if e[0] == "item"]


def runs_of(l, r):
    out = []
    for x in l:
        if out and rel_ev(r, out[-1][0], x):     # equivalence: comparing with the first element of the run
            out[-1].append(x)
        else:
            out.append([x])
    return out


def den(p):
    """The documented sequence of a failure-free pipeline with parameters in the documented domain."""
    t = p["t"]
    if t == "src":
        return src_items(p["src"])
    if t == "peek":
        return den(p["p"])
    if t == "compact":
        out = []
        for x in den(p["p"]):
            if not out or not rel_ev(p["r"], out[-1], x):
                out.append(x)
        return out
    if t == "filter":
        return [x for x in den(p["p"]) if pred_ev(p["f"], x)]
    if t == "first":
        return den(p["p"])[:max(0, p["n"])]
    if t in ("flatten", "join"):
        return [x for q in p["ps"] for x in den(q)]
    if t == "map":
        return [p["f"][0] * x + p["f"][1] for x in den(p["p"])]
    if t == "while":
        out = []
        for x in den(p["p"]):
            if not pred_ev(p["f"], x):
                break
            out.append(x)
        return out
    if t == "flattenslices":
        return [x for l in den(p["p"]) for x in l]
    if t == "chunk":
        l = den(p["p"])
        n = p["n"]
        return [l[i:i + n] for i in range(0, len(l), n)]
    if t == "runs":
        rs = runs_of(den(p["p"]), p["r"])
        return rs if p["take"] is None else [r[:p["take"]] for r in rs]
    raise ValueError(t)


def walk(p, f):
    f(p)
    if "p" in p:
        walk(p["p"], f)
    for q in p.get("ps", []):
        walk(q, f)


def sources(p):
    out = []
    walk(p, lambda n: out.append(n) if n["t"] == "src" else None)
    return out


def has_faults(p):
    bad = [False]

    def f(n):
        if n["t"] == "src" and n["src"]["k"] in ("script", "scriptnc") and any(e[0] != "item" for e in n["src"]["evs"]):
            bad[0] = True
        if n["t"] == "src" and n["src"]["k"] == "error":
            bad[0] = True          # stream.Error: an unretryable fault and nothing else
        if "fl" in n and n["fl"][0] is not None:
            bad[0] = True
    walk(p, f)
    return bad[0]


def error_answer(p, live_only):
    """What EVERY Next of the pipeline must answer when that is determined by stream.Error sources alone, from the
    documentation of the combinators (independent of the Coq model):  ["err", e] - the error of the stream.Error
    that the call reaches first -, ["end"], or None when items are involved (not decided here).
    stream.Error never yields and never ends, so no callback is ever invoked and the answer is the same for every
    call: first or later, live or expired context (errorStream.Next does not look at it), before or after Close.
    Flatten asks its outer stream (a FromIterator, which answers an expired context itself) before it has an inner
    stream: decided only for programs whose calls all have live contexts (live_only)."""
    t = p["t"]
    if t == "src":
        return ["err", p["src"]["e"]] if p["src"]["k"] == "error" else None
    if t == "first":
        return ["end"] if p["n"] <= 0 else error_answer(p["p"], live_only)
    if t in ("join", "flatten"):
        if t == "flatten" and not live_only:
            return None
        for q in p["ps"]:
            a = error_answer(q, live_only)
            if a != ["end"]:
                return a           # the first stream that does not end at once decides (None: items)
        return ["end"]
    # Peek, Compact, Filter, Map, While, FlattenSlices, Chunk, Runs: nothing to work with - the error (or the end) of
    # the inner stream is the answer
    return error_answer(p["p"], live_only)


def has_panics(case):
    """Some callback, the reduction function or a source of the case panics."""
    bad = [False]

    def f(n):
        if n["t"] == "src" and n["src"]["k"] in ("script", "scriptnc") and any(e[0] == "panic" for e in n["src"]["evs"]):
            bad[0] = True
        if "fl" in n and n["fl"][0] is not None and len(n["fl"]) > 2 and n["fl"][2]:
            bad[0] = True
    walk(case["cfg"]["pipe"], f)
    red = case["cfg"]["prog"].get("reduce")
    if red and red[0] == "sum" and len(red) > 1 and red[1][0] is not None:
        bad[0] = True          # a failing reduction function (error or panic)
    return bad[0]


def documented_domain(p):
    ok = [True]

    def f(n):
        if n["t"] == "chunk" and n["n"] < 1:
            ok[0] = False
        if n["t"] in ("compact", "runs") and n["r"][0] == "div" and n["r"][1] <= 0:
            ok[0] = False
        if n["t"] == "runs" and n["take"] is not None and n["take"] < 1:
            ok[0] = False
    walk(p, f)
    return ok[0]


def flatten_inner_ids(p):
    ids = set()

    def f(n):
        if n["t"] == "flatten":
            for q in n["ps"]:
                for s in sources(q):
                    ids.add(s["id"])
    walk(p, f)
    return ids


# ---------------------------------------------------------------- generator

class PipeGen:
    def __init__(self, rng, kind, faults):
        self.rng = rng
        self.kind = kind          # "iter" | "stream"
        self.faults = faults      # allow scripted faults / failing callbacks / expired contexts
        self.panics = False       # allow callbacks, reduction functions and scripted sources that panic
        self.nid = 0
        self.err = 10

    def vals(self):
        r = self.rng
        n = r.choice([0, 1, 1, 2, 3, 4, 6])
        style = r.choice(["rand", "rand", "allequal", "alternating", "runstart", "runend", "ascending", "zerotail"])
        if style == "allequal":
            return [r.randint(0, 5)] * n
        if style == "alternating":
            a, b = r.randint(0, 9), r.randint(0, 9)
            return [a if i % 2 == 0 else b for i in range(n)]
        if style == "ascending":
            return list(range(n))
        l = [r.randint(0, 9) for _ in range(n)]
        if style == "zerotail" and n >= 1:
            for i in range(r.randint(1, n)):
                l[n - 1 - i] = 0
        if style == "runstart" and n >= 2:
            l[1] = l[0]
        if style == "runend" and n >= 2:
            l[-1] = l[-2]
        return l

    def source(self):
        r = self.rng
        kinds = ["slice", "slice", "slice", "counter", "repeat", "empty", "chan"]
        if self.kind == "stream":
            kinds += ["script", "script", "script", "error"]
            if self.faults:
                # no chan with expired contexts; scriptnc = a source that never looks at its context
                kinds = ["script", "script", "script", "scriptnc", "scriptnc", "slice", "counter", "error"]
        k = r.choice(kinds)
        if k == "error":           # stream.Error(err)
            self.err += 1
            return {"k": k, "e": self.err}
        if k == "slice" or k == "chan":
            return {"k": k, "l": self.vals()}
        if k == "counter":
            return {"k": k, "n": r.choice([-1, 0, 1, 3, 5])}
        if k == "repeat":
            return {"k": k, "x": r.randint(0, 9), "n": r.choice([-1, 0, 1, 3])}
        if k == "empty":
            return {"k": k}
        evs = [["item", v] for v in self.vals()]
        if self.faults:
            for _ in range(r.choice([0, 1, 1, 2, 3])):
                self.err += 1
                evs.insert(r.randint(0, len(evs)), ["transient", self.err])
            if r.random() < 0.35:
                self.err += 1
                pos = r.randint(0, len(evs))
                evs = evs[:pos] + [["fatal", self.err]]
        if self.panics and r.random() < 0.15:
            evs.insert(r.randint(0, len(evs)), ["panic"])
        return {"k": k, "evs": evs}

    def fl(self):
        if self.panics and self.rng.random() < 0.25:
            return [self.rng.choice([0, 1, 2, 4]), 0, True]          # the k-th invocation panics
        if self.kind == "stream" and self.faults and self.rng.random() < 0.25:
            self.err += 1
            return [self.rng.choice([0, 1, 2, 4]), self.err, False]
        return [None, 0, False]

    def pred(self):
        r = self.rng
        k = r.choice(["true", "modeq", "modeq", "lt", "lt", "not"])
        if k == "true":
            return ["true"]
        if k == "modeq":
            m = r.choice([2, 3])
            return ["modeq", m, r.randrange(m)]
        if k == "lt":
            return ["lt", r.randint(0, 10)]
        return ["not", ["modeq", 2, r.randrange(2)]]

    def rel(self):
        return self.rng.choice([["eq"], ["eq"], ["div", 2], ["div", 4]])

    def pz(self, depth):
        r = self.rng
        if depth <= 0 or r.random() < 0.25:
            self.nid += 1
            return {"t": "src", "id": self.nid - 1, "src": self.source()}
        kinds = ["peek", "compact", "filter", "first", "flatten", "join", "map", "while"]
        if self.kind == "stream":
            kinds.append("flattenslices")
        t = r.choice(kinds)
        if t == "peek":
            return {"t": t, "p": self.pz(depth - 1)}
        if t == "compact":
            return {"t": t, "r": self.rel(), "p": self.pz(depth - 1)}
        if t == "filter":
            return {"t": t, "f": self.pred(), "fl": self.fl(), "p": self.pz(depth - 1)}
        if t == "first":
            return {"t": t, "n": r.choice([-1, 0, 1, 2, 3, 5, 7]), "p": self.pz(depth - 1)}
        if t in ("flatten", "join"):
            return {"t": t, "ps": [self.pz(depth - 1) for _ in range(r.choice([0, 1, 2, 3]))]}
        if t == "map":
            return {"t": t, "f": [r.choice([1, 2, -1]), r.choice([0, 1, 10])], "fl": self.fl(), "p": self.pz(depth - 1)}
        if t == "while":
            return {"t": t, "f": self.pred(), "fl": self.fl(), "p": self.pz(depth - 1)}
        return {"t": "flattenslices", "p": self.pl(depth - 1)}

    def pl(self, depth):
        r = self.rng
        if r.random() < 0.5:
            return {"t": "chunk", "n": r.choice([1, 1, 2, 2, 3, 5]), "p": self.pz(depth - 1)}
        return {"t": "runs", "r": self.rel(), "take": r.choice([None, None, 1, 2]), "p": self.pz(depth - 1)}

    def equal_others(self, pipe):
        """Other pipelines for Equal: plain slices derived from the documented sequence of pipe."""
        r = self.rng
        try:
            base = den(pipe)
        except Exception:
            base = [1, 2]
        others = []
        for _ in range(r.choice([0, 1, 1, 2, 3])):
            v = list(base)
            k = r.choice(["same", "same", "shorter", "dropzeros", "longer0", "longer", "differ"])
            if k == "shorter" and v:
                v = v[:-1]
            elif k == "dropzeros":
                while v and v[-1] == 0:
                    v.pop()
            elif k == "longer0":
                v = v + [0] * r.choice([1, 2])
            elif k == "longer":
                v = v + [r.randint(1, 9)]
            elif k == "differ" and v:
                i = r.randrange(len(v))
                v[i] = v[i] + 1
            self.nid += 1
            others.append({"t": "src", "id": self.nid - 1, "src": {"k": "slice", "l": v}})
        return others

    def program(self, pipe, total_guess):
        r = self.rng
        listp = is_list_pipe(pipe)
        if not listp and self.kind == "iter" and documented_domain(pipe) and r.random() < 0.2:
            return {"reduce": ["equal", self.equal_others(pipe)], "live": True}
        if not listp and r.random() < (0.6 if self.panics else 0.35):
            red = r.choice([["collect"], ["last", r.choice([0, 1, 2, max(0, total_guess - 1), total_guess, total_guess + 1])], ["one"], ["sum", [None, 0, False]]] +
                           ([["equalself"]] if self.kind == "iter" else []))
            if self.panics and r.random() < 0.3:
                red = ["sum", [None, 0, False]]
            if red[0] == "sum" and (self.panics or (self.kind == "stream" and self.faults)) and r.random() < 0.4:
                # the reduction function fails at its k-th call: by panicking, or (streams) by returning an error
                pan = self.panics and (self.kind == "iter" or r.random() < 0.6)
                self.err += 1
                red = ["sum", [r.choice([0, 1, 2]), 0 if pan else self.err, pan]]
            live = True if not (self.kind == "stream" and self.faults) else r.random() < 0.85
            return {"reduce": red, "live": live}
        k = r.choice([0, 1, 2, total_guess, total_guess + 1, total_guess + 3])
        steps = []
        for _ in range(k):
            if self.kind == "stream" and self.faults and r.random() < 0.2:
                steps.append(["next", False])
            steps.append(["next", True])
        if self.kind == "stream":
            steps.append(["close"])
        return {"steps": steps}


def gen_case(rng, kind, faults, panics=False):
    g = PipeGen(rng, kind, faults)
    g.panics = panics
    depth = rng.choice([0, 1, 1, 2, 2, 3, 4])
    pipe = g.pl(depth) if rng.random() < 0.25 else g.pz(depth)
    try:
        guess = len(den(pipe)) if documented_domain(pipe) else 3
    except Exception:
        guess = 3
    prog = g.program(pipe, guess)
    cfg = {"kind": kind, "pipe": pipe, "prog": prog}
    if kind == "stream" and rng.random() < 0.3:
        cfg["valsrc"] = True      # the sources are by-value structs of funcs: streams that cannot be compared with ==
    return {"component": "pipes", "cfg": cfg, "ops": []}


def error_source_cases(rng):
    """stream.Error(E) by itself and as the source of every combinator and every reducer: Next with live and expired
    contexts, repeated, Close, Next after Close (the instrumented wrapper logs the calls that reach the stream)."""
    code = [40]

    def E(i=0):
        code[0] += 1
        return {"t": "src", "id": i, "src": {"k": "error", "e": code[0]}}

    def sl(i, l):
        return {"t": "src", "id": i, "src": {"k": "slice", "l": l}}
    nf = [None, 0, False]
    fails_first = [0, 99, False]          # a callback that would fail at its first invocation: it is never invoked
    shapes = [
        lambda: E(),
        lambda: {"t": "peek", "p": E()},
        lambda: {"t": "compact", "r": ["eq"], "p": E()},
        lambda: {"t": "compact", "r": ["div", 2], "p": E()},
        lambda: {"t": "filter", "f": ["true"], "fl": nf, "p": E()},
        lambda: {"t": "filter", "f": ["lt", 3], "fl": fails_first, "p": E()},
        lambda: {"t": "first", "n": 1, "p": E()},
        lambda: {"t": "first", "n": 5, "p": E()},
        lambda: {"t": "first", "n": 0, "p": E()},
        lambda: {"t": "join", "ps": [E()]},
        lambda: {"t": "join", "ps": [E(), sl(1, [1, 2])]},
        lambda: {"t": "join", "ps": [sl(0, []), E(1), E(2)]},
        lambda: {"t": "join", "ps": [sl(0, [4]), E(1)]},
        lambda: {"t": "flatten", "ps": [E(), sl(1, [1, 2])]},
        lambda: {"t": "flatten", "ps": [sl(0, []), E(1)]},
        lambda: {"t": "map", "f": [2, 1], "fl": nf, "p": E()},
        lambda: {"t": "map", "f": [1, 0], "fl": fails_first, "p": E()},
        lambda: {"t": "while", "f": ["true"], "fl": nf, "p": E()},
        lambda: {"t": "while", "f": ["lt", 0], "fl": nf, "p": E()},
        lambda: {"t": "flattenslices", "p": {"t": "chunk", "n": 2, "p": E()}},
        lambda: {"t": "flattenslices", "p": {"t": "runs", "r": ["eq"], "take": None, "p": E()}},
        lambda: {"t": "chunk", "n": 1, "p": E()},
        lambda: {"t": "chunk", "n": 3, "p": E()},
        lambda: {"t": "runs", "r": ["eq"], "take": None, "p": E()},
        lambda: {"t": "runs", "r": ["div", 2], "take": 1, "p": E()},
        # nestings
        lambda: {"t": "map", "f": [1, 1], "fl": nf, "p": {"t": "filter", "f": ["true"], "fl": nf, "p": {"t": "peek", "p": E()}}},
        lambda: {"t": "first", "n": 2, "p": {"t": "flattenslices", "p": {"t": "chunk", "n": 2, "p": {"t": "compact", "r": ["eq"], "p": E()}}}},
        lambda: {"t": "join", "ps": [{"t": "first", "n": 0, "p": E()}, {"t": "while", "f": ["true"], "fl": nf, "p": E(1)}]},
    ]
    programs = [
        {"steps": [["next", True], ["next", False], ["next", True], ["close"], ["next", True], ["next", False]]},
        {"steps": [["next", False], ["next", False], ["close"], ["close"]]},
        {"steps": [["next", True], ["next", True], ["next", True], ["close"]]},
        {"steps": [["close"], ["next", True]]},
        {"steps": [["close"]]},
    ] + [{"reduce": red, "live": live} for red in (["collect"], ["last", 0], ["last", 2], ["one"], ["sum", [None, 0, False]], ["sum", [0, 98, False]])
         for live in (True, False)]
    cases = []
    for mk in shapes:
        for prog in programs:
            pipe = mk()
            if "reduce" in prog and is_list_pipe(pipe):
                continue
            cfg = {"kind": "stream", "pipe": pipe, "prog": copy.deepcopy(prog), "error_source_case": True}
            if rng.random() < 0.3:
                cfg["valsrc"] = True
            cases.append({"component": "pipes", "cfg": cfg, "ops": []})
    return cases


def erase_faults(case):
    """C08: the same pipeline and program without transient faults and without expired-context steps."""
    c = copy.deepcopy(case)

    def f(n):
        if n["t"] == "src" and n["src"]["k"] in ("script", "scriptnc"):
            n["src"]["evs"] = [e for e in n["src"]["evs"] if e[0] != "transient"]
    walk(c["cfg"]["pipe"], f)
    prog = c["cfg"]["prog"]
    if "steps" in prog:
        # a call with an expired context may still deliver an item when a source ignores its context: the twin makes
        # all those calls with a live context (it then delivers at least as many items; prefixes are compared)
        prog["steps"] = [([s[0], True] + list(s[2:])) if s[0] == "next" else s for s in prog["steps"]]
    return c


class PipeSpec(SeqSpec):
    component = "pipes"
    imports = "From Juniper Require Import Common.Base Iter.Syntax Iter.Config Iter.ModelBase Iter.IterModel Iter.StreamModel Iter.Corr."

    def __init__(self, kind, faults, checker_suffix="", panics=False):
        self.kind = kind
        self.faults = faults
        self.panics = panics
        self.checkers = {"M": ("check_iter" if kind == "iter" else "check_stream") + checker_suffix}
        self.case_type = "icase"
        self.twin = {}

    def gen(self, rng, tier, scale):
        n = int((500 if tier == "quick" else 8000) * scale)
        cases = []
        for _ in range(n):
            c = gen_case(rng, self.kind, self.faults, self.panics)
            cases.append(c)
            if self.faults and not has_panics(c) and (has_faults(c["cfg"]["pipe"]) or any(s[0] == "next" and s[1] is False for s in c["cfg"]["prog"].get("steps", []))):
                t = erase_faults(c)
                t["twin_of_previous"] = True
                cases.append(t)
        if self.kind == "stream" and not self.panics:
            cases += error_source_cases(rng)
        return cases

    def post_run(self, cases, obs_by_id):
        self.twin = {}
        for i, c in enumerate(cases):
            if c.get("twin_of_previous") and i > 0:
                self.twin[cases[i - 1]["id"]] = obs_by_id[c["id"]]

    def shrinkable(self):
        return False

    def coq_case(self, case, obs):
        pipe = case["cfg"]["pipe"]
        inj = "@inr pz pl" if is_list_pipe(pipe) else "@inl pz pl"
        return "(%s %s,\n %s,\n %s)" % (inj, pipe_t(pipe), prog_t(case["cfg"]["prog"]), obs_t(obs))

    # ------------------------------------------------------------ oracles
    def oracle(self, case, obs):
        fails = []
        pipe, prog = case["cfg"]["pipe"], case["cfg"]["prog"]
        steps = obs["obs"]
        log = obs.get("aux", {}).get("log", [])
        results = [s[0] for s in steps]
        domain = documented_domain(pipe)
        faulty = has_faults(pipe)
        expired = any(s[0] == "next" and s[1] is False for s in prog.get("steps", [])) or ("reduce" in prog and not prog.get("live", True))
        if obs.get("aux", {}).get("args_intact") is False:
            fails.append(("argument-slice-modified", "a slice passed as the variadic argument of Join was modified by the library (an element replaced)"))
        if any(r[0] in ("bad",) for r in results):
            fails.append(("bad-observation", "the harness could not observe a result: %r" % results))
        # ---- C08: an error that reaches the consumer is the injected error VALUE, not a copy or a wrapper of it
        if obs.get("aux", {}).get("errors_not_intact"):
            fails.append(("error-not-intact", "scripted errors %r reached the consumer wrapped or re-created, not as the value the source/callback returned"
                          % (obs["aux"]["errors_not_intact"],)))
        # ---- C07/C08: stream.Error(E) - by itself and under every combinator / reducer - reports E, at every call
        if self.kind == "stream" and not has_panics(case):
            nexts = [s for s in prog.get("steps", []) if s[0] == "next"]
            live_only = all(s[1] for s in nexts) if "steps" in prog else bool(prog.get("live", True))
            ans = error_answer(pipe, live_only)
            if ans is not None and "steps" in prog:
                for i, (st, r) in enumerate(zip(prog["steps"], results)):
                    want = ["unit"] if st[0] == "close" else ans
                    if r != want:
                        sig = "error-source:" + ("constructor" if pipe["t"] == "src" else pipe["t"])
                        fails.append((sig, "step %d (%r) answered %r; over stream.Error every Next must answer %r (whatever the context, before and after Close)"
                                      % (i, st, r, want)))
                        break
                if len(results) != len(prog["steps"]):
                    fails.append(("error-source:run-stopped", "the run has %d results for %d steps" % (len(results), len(prog["steps"]))))
            elif ans is not None:
                red = prog["reduce"]
                r = results[0] if results else ["bad"]
                if ans[0] == "err":
                    want = ans
                else:
                    want = {"collect": ["val", []], "last": ["val", []], "sum": ["val", [0]], "one": ["err", -2]}[red[0]]
                if r != want:
                    fails.append(("error-source:reducer:" + red[0], "%r over a pipeline that answers %r returned %r, must return %r" % (red, ans, r, want)))
        # ---- C07: documented sequence / reducers / sticky end (failure-free, documented parameter domain)
        panicky = has_panics(case)
        if domain and not faulty and not expired and not panicky:
            want = den(pipe)
            if "steps" in prog:
                got, ended = [], False
                for r in results:
                    if r[0] in ("item", "iteml"):
                        if ended:
                            fails.append(("not-sticky", "an item %r was returned after the end had been reported" % (r,)))
                        got.append(r[1])
                    elif r[0] == "end":
                        ended = True
                    elif r[0] == "panic":
                        fails.append(("panic", "a Next call panicked on a pipeline with documented parameters"))
                    elif r[0] == "err":
                        fails.append(("unexpected-error", "failure-free pipeline reported %r" % (r,)))
                if got != want[:len(got)]:
                    fails.append(("wrong-sequence", "yielded %r, documented sequence is %r" % (got, want)))
                nnext = sum(1 for s in prog["steps"] if s[0] == "next")
                if not fails and nnext > len(want) and (not ended or len(got) != len(want)):
                    fails.append(("wrong-sequence", "after %d Next calls yielded %r and ended=%r, documented sequence is %r" % (nnext, got, ended, want)))
                if not fails and nnext <= len(want) and ended:
                    fails.append(("wrong-sequence", "reported the end after %r, documented sequence is %r" % (got, want)))
            else:
                red = prog["reduce"]
                r = results[0] if results else ["bad"]
                exp = None
                if red[0] == "collect":
                    exp = ["val", want]
                elif red[0] == "last":
                    exp = ["val", want[max(0, len(want) - red[1]):] if red[1] > 0 else []]
                elif red[0] == "sum":
                    exp = ["val", [sum(want)]]
                elif red[0] == "equalself":
                    exp = ["val", [1]]
                elif red[0] == "equal":
                    exp = ["val", [1 if all(den(q) == want for q in red[1]) else 0]]
                elif red[0] == "one":
                    if self.kind == "iter":
                        exp = ["val", want] if len(want) == 1 else ["end"]
                    else:
                        exp = ["val", want] if len(want) == 1 else ["err", -2 if not want else -3]
                if exp is not None and r != exp:
                    fails.append(("reducer:" + red[0], "%s returned %r, documented result is %r (input %r)" % (red, r, exp, want)))
        # ---- C08
        if self.kind == "stream" and domain:
            # (a) fatal failure surfaces intact: after a fatal error nothing but that error / no End in between
            # (b) retry costs nothing: compare successful items with the fault-erased twin
            tw = self.twin.get(case.get("id"))
            if tw is not None and "steps" in prog:
                mine = [r[1] for r in results if r[0] in ("item", "iteml")]
                theirs = [s[0][1] for s in tw["obs"] if s[0][0] in ("item", "iteml")]
                k = min(len(mine), len(theirs))
                if mine[:k] != theirs[:k]:
                    fails.append(("retry-lost-or-duplicated", "with transient faults/expired contexts the items are %r, without them %r" % (mine, theirs)))
                # the faulty run makes at least as many successful... it has the same number of live Next calls, fewer may succeed
            if "steps" in prog:
                for i, r in enumerate(results):
                    if r[0] == "err" and r[1] == -1:
                        st = [s for s in prog["steps"]][i] if i < len(prog["steps"]) else None
                        if st is not None and st[0] == "next" and st[1] is True:
                            fails.append(("spurious-context-error", "step %d: a Next with a live context returned the context error" % i))
        # ---- C09 (streams): every owned source closed exactly once, no use after close
        # a consumer program that itself calls Next after Close (some of the stream.Error cases do, to see that Close
        # changes nothing there) has left the ownership protocol: nothing is claimed about closes for it
        kinds_ = [s[0] for s in prog.get("steps", [])]
        next_after_close = "close" in kinds_ and "next" in kinds_[kinds_.index("close"):]
        if self.kind == "stream" and not next_after_close:      # (also when a call panicked and the caller recovered: reducers close by defer)
            closes = {}
            closed = set()
            for e in log:
                if e[0] == "close":
                    closes[e[1]] = closes.get(e[1], 0) + 1
                    closed.add(e[1])
                elif e[1] in closed:
                    fails.append(("use-after-close", "source %d received Next after Close" % e[1]))
            finished = ("reduce" in prog) or any(s[0] == "close" for s in prog.get("steps", []))
            if finished:
                inner = flatten_inner_ids(pipe)
                touched = {e[1] for e in log}
                owned = {s["id"] for s in sources(pipe) if s["id"] not in inner} | (touched & inner)
                for sid in sorted(owned):
                    n = closes.get(sid, 0)
                    nclose = sum(1 for s in prog.get("steps", []) if s[0] == "close") if "steps" in prog else 1
                    if n == 0:
                        fails.append(("never-closed:" + ("reducer:" + prog["reduce"][0] if "reduce" in prog else "combinator"),
                                      "source %d was handed to the pipeline but never closed (log %r)" % (sid, log)))
                    elif n > nclose:
                        fails.append(("closed-twice", "source %d was closed %d times" % (sid, n)))
        return fails

    def stats(self, case, obs, acc):
        d = acc.setdefault("nodes", {})

        def f(n):
            key = n["t"] if n["t"] != "src" else "src:" + n["src"]["k"]
            d[key] = d.get(key, 0) + 1
        walk(case["cfg"]["pipe"], f)
        pr = acc.setdefault("programs", {})
        prog = case["cfg"]["prog"]
        key = "reduce:" + prog["reduce"][0] if "reduce" in prog else "steps"
        pr[key] = pr.get(key, 0) + 1
        rs = acc.setdefault("results", {})
        for s in obs["obs"]:
            rs[s[0][0]] = rs.get(s[0][0], 0) + 1
        if has_faults(case["cfg"]["pipe"]):
            acc["with_faults"] = acc.get("with_faults", 0) + 1

    def nontrivial(self, case, obs):
        return len(obs["obs"]) >= 1 and case["cfg"]["pipe"]["t"] != "src"


class XSlicesAgreeSpec(SeqSpec):
    """xslices.Chunk / xslices.Runs against the documented sequence function that the iterator and stream
    versions are checked against (C07: the three versions agree)."""
    component = "xs"
    checkers = {}

    def gen(self, rng, tier, scale):
        n = int((300 if tier == "quick" else 5000) * scale)
        g = PipeGen(rng, "iter", False)
        cases = []
        for _ in range(n):
            l = g.vals()
            if rng.random() < 0.12:
                # huge chunk sizes: every positive size is documented to work
                cases.append({"component": "xs", "ops": [], "cfg": {"fn": "chunk", "l": l, "n": "maxint-%d" % rng.choice([0, 1, 2, 3, 7])}})
            elif rng.random() < 0.5:
                cases.append({"component": "xs", "ops": [], "cfg": {"fn": "chunk", "l": l, "n": rng.choice([1, 1, 2, 3, 5, len(l) + 1])}})
            else:
                cases.append({"component": "xs", "ops": [], "cfg": {"fn": "runs", "l": l, "r": g.rel()}})
        return cases

    def shrinkable(self):
        return False

    def coq_case(self, case, obs):
        return ""

    def oracle(self, case, obs):
        cfg = case["cfg"]
        l = cfg["l"]
        if cfg["fn"] == "chunk":
            n = cfg["n"] if not isinstance(cfg["n"], str) else (1 << 63) - 1 - int(cfg["n"][len("maxint-"):])
            exp = [l[i:i + n] for i in range(0, len(l), n)]
        else:
            exp = runs_of(l, cfg["r"])
        got = obs["obs"][0]
        if got != ["lists", exp]:
            return [("xslices-%s-disagrees-with-iterator" % cfg["fn"],
                     "xslices.%s(%r, %r) = %r; the iterator/stream versions and the documentation give %r" % (cfg["fn"].capitalize(), l, cfg.get("n", cfg.get("r")), got, exp))]
        return []

    def nontrivial(self, case, obs):
        return len(case["cfg"]["l"]) >= 1


class SampleStreamSpec(SeqSpec):
    """xrand.SampleStream owns its stream (C09): closed exactly once, never used after, min(k, n) distinct items."""
    component = "samplestream"
    checkers = {}

    def gen(self, rng, tier, scale):
        n = int((150 if tier == "quick" else 3000) * scale)
        cases = []
        for i in range(n):
            items = list(range(100, 100 + rng.choice([0, 1, 2, 5, 9, 30])))
            evs = [["item", v] for v in items]
            if rng.random() < 0.4:
                pos = rng.randint(0, len(evs))
                evs = evs[:pos] + [[rng.choice(["fatal", "transient"]), 50 + i % 7]] + evs[pos:]
            cases.append({"component": "samplestream", "ops": [],
                          "cfg": {"evs": evs, "k": rng.choice([0, 1, 2, 5, 40]), "live": rng.random() < 0.85, "seed": rng.randrange(1 << 30)}})
        return cases

    def shrinkable(self):
        return False

    def coq_case(self, case, obs):
        return ""

    def oracle(self, case, obs):
        fails = []
        res, pulls = obs["obs"][0]
        log = obs.get("aux", {}).get("log", [])
        closes = sum(1 for e in log if e[0] == "close")
        if res[0] == "panic":
            fails.append(("samplestream-panic", "SampleStream panicked on %r" % (case["cfg"],)))
        if closes != 1:
            fails.append(("samplestream-close-count", "the stream handed to SampleStream was closed %d times (log %r)" % (closes, log)))
        seen_close = False
        for e in log:
            if e[0] == "close":
                seen_close = True
            elif seen_close:
                fails.append(("samplestream-use-after-close", "Next after Close (log %r)" % (log,)))
                break
        cfg = case["cfg"]
        faulty = any(e[0] != "item" for e in cfg["evs"])
        items = [e[1] for e in cfg["evs"] if e[0] == "item"]
        if res[0] == "val" and not faulty and cfg["live"]:
            want = min(max(cfg["k"], 0), len(items))
            if len(res[1]) != want or len(set(res[1])) != len(res[1]) or any(x not in items for x in res[1]):
                fails.append(("samplestream-structure", "k=%d over %d items returned %r" % (cfg["k"], len(items), res[1])))
        if faulty and cfg["live"] and res[0] == "val" and any(e[0] == "fatal" for e in cfg["evs"]):
            fails.append(("samplestream-error-swallowed", "the source failed fatally but SampleStream returned %r" % (res,)))
        return fails

    def nontrivial(self, case, obs):
        return len(case["cfg"]["evs"]) >= 1
