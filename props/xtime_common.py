"""C20 — scenario generators, Coq printing and direct oracles for xtime.SleepContext and
xtime.JitterTicker (harness: /verif/harness_xtime, model: coq/theories/Conc/XTime.v).

All times are nanoseconds on the runner's monotonic clock, relative to the scenario's start; every
recorded event carries its timestamp as last element.  Every check is ONE-SIDED: nothing asserts an
upper bound on a latency (a nil return must not come earlier than d, a tick must not be closer than
d - jitter to its predecessor, a tick must not carry a time later than Stop's return, ...)."""
import vlib
from vlib import SeqSpec, z

MS = 1000 * 1000
MAX_I64 = (1 << 63) - 1
HUGE_J = 1 << 62
HUGE_D = HUGE_J + 1


# ------------------------------------------------------------------------------------------------
# SleepContext
# ------------------------------------------------------------------------------------------------

class SleepSpec(SeqSpec):
    component = "sleep"
    imports = "From Juniper Require Import Common.Base Conc.GoLTS Conc.XTime."
    preamble = ""
    checkers = {"M": "check_sleep"}
    case_type = "Z * option Z * list slab"

    def gen_one(self, rng, kind):
        d = rng.choice([1, 2, 3, 5, 8, 12]) * MS + rng.randrange(0, MS)
        far = lambda: 2 * d + 50 * MS + rng.randrange(0, 20 * MS)
        near = lambda: rng.choice([d // 2, d // 4, d // 2 - 1, 1, 0, -1 * MS, -1])
        if kind == "nonpos":
            d = rng.choice([0, 0, -1, -5 * MS])
            ctx = rng.choice([["ctx", "none"], ["ctx", "deadline", rng.choice([1, -1 * MS, 10 * MS, 200 * MS])]])
            ops = [ctx] + ([["cancel"]] if rng.random() < 0.4 else []) + [["call", d], ["join"]]
        elif kind == "plain":
            ops = [["ctx", "none"], ["call", d], ["join"]]
        elif kind == "far":
            ops = [["ctx", "deadline", far()], ["call", d], ["join"]]
        elif kind == "near":
            ops = [["ctx", "deadline", near()], ["call", d], ["join"]]
        elif kind == "pre":
            ctx = rng.choice([["ctx", "none"], ["ctx", "deadline", far()], ["ctx", "deadline", near()]])
            ops = [ctx, ["cancel"], ["call", d], ["join"]]
        elif kind == "huge":
            # an expired (or unrepresentably old) deadline together with a huge d: "closer than d" must not be decided
            # by a subtraction that overflows
            ctx = rng.choice([["ctx", "deadline", -5 * MS], ["ctx", "deadline", -3600 * 1000 * MS], ["ctx", "deadline", "zero"],
                              ["ctx", "deadline", near()]])
            dd = rng.choice(["maxint", "maxint-1", "2^62", d]) if ctx[2] != "zero" else rng.choice(["maxint", d, 5 * MS])
            ops = [ctx, ["call", dd], ["join"]]
        else:  # cancelled mid-sleep by the controller
            d = rng.choice([10, 15, 20, 30]) * MS
            ctx = rng.choice([["ctx", "none"], ["ctx", "deadline", 2 * d + 50 * MS + rng.randrange(0, 20 * MS)]])
            ops = [ctx, ["call", d], ["pause", rng.randrange(MS // 2, d // 3)], ["cancel"], ["join"]]
        return ops

    def gen(self, rng, tier, scale):
        n = int((180 if tier == "quick" else 2400) * scale)
        kinds = ["nonpos", "plain", "far", "far", "near", "near", "pre", "mid", "mid", "huge"]
        cases = [{"component": "sleep", "ops": self.gen_one(rng, kinds[i % len(kinds)])} for i in range(n)]
        for c in cases:
            # a third of the contexts are cancelled with a cause (context.WithCancelCause)
            if rng.random() < 0.33:
                for o in c["ops"]:
                    if o[0] == "ctx":
                        o.append("cause")
        return cases

    @staticmethod
    def summary(obs):
        """(d, deadline_abs|None, t_call, t_ret, kind, t_cancel|None) or None if the call did not complete."""
        d = dl = t_call = t_ret = kind = t_cancel = None
        for e in obs["obs"]:
            if e[0] == "ctx":
                dl = e[2]
            elif e[0] == "cancel" and t_cancel is None:
                t_cancel = e[-1]
            elif e[0] == "call":
                d, t_call = e[1], e[-1]
            elif e[0] == "ret":
                kind, t_ret = e[1], e[-1]
        if t_call is None or t_ret is None:
            return None
        return d, dl, t_call, t_ret, kind, t_cancel

    def conclusive(self, obs):
        aux = obs.get("aux") or {}
        return not (aux.get("hung") or aux.get("inconclusive") or aux.get("leaked")) and self.summary(obs) is not None

    def coq_case(self, case, obs):
        if not self.conclusive(obs):
            return "(0, None, [])"
        d, dl, t_call, t_ret, kind, t_cancel = self.summary(obs)
        evs = []
        res = {"nil": "SNil", "toosoon": "STooSoon", "canceled": "(SErr ECanceled)", "deadline": "(SErr EDeadline)"}
        for e in obs["obs"]:
            t = e[-1]
            if e[0] == "cancel":
                evs += ["SLTick %s" % z(t), "SLCancel"]
            elif e[0] == "call":
                evs += ["SLTick %s" % z(t), "SLCall"]
            elif e[0] == "ret":
                if e[1] in res:
                    evs += ["SLTick %s" % z(t), "SLRet %s" % res[e[1]]]
                else:
                    evs += ["SLCall; SLCall"]     # an error of no known kind: no model run produces this
                break                             # events of the clean-up after the return are not part of the case
        return "(%s, %s, [%s])" % (z(d), "None" if dl is None else "Some %s" % z(dl), "; ".join(evs))

    def oracle(self, case, obs):
        if not self.conclusive(obs):
            return []
        d, dl, t_call, t_ret, kind, t_cancel = self.summary(obs)
        fails = []
        if kind.startswith("other:"):
            return [("unexpected-error", "SleepContext(d=%d) returned an error that is neither DeadlineTooSoonError nor the context's: %s" % (d, kind))]
        if d <= 0:
            if kind != "nil":
                fails.append(("nonpositive-d-not-nil", "SleepContext(d=%d) returned %s, not nil" % (d, kind)))
            return fails
        if kind == "nil" and t_ret - t_call < d:
            fails.append(("nil-before-d", "SleepContext(d=%d) returned nil after only %d ns (return logged at most that long after the call was logged)" % (d, t_ret - t_call)))
        if kind == "toosoon":
            if dl is None:
                fails.append(("toosoon-without-deadline", "DeadlineTooSoonError for a context without deadline"))
            elif dl - t_ret >= d:
                # every clock value time.Until can have read lies in [t_call, t_ret]: remaining >= dl - t_ret >= d
                fails.append(("toosoon-with-enough-time", "SleepContext(d=%d) returned DeadlineTooSoonError although at least %d ns remained until the deadline" % (d, dl - t_ret)))
        elif dl is not None and dl - t_call < d:
            fails.append(("deadline-too-close-not-reported", "SleepContext(d=%d) with at most %d ns until the deadline returned %s, not DeadlineTooSoonError" % (d, dl - t_call, kind)))
        if kind == "canceled" and (t_cancel is None or t_cancel > t_ret):
            fails.append(("ctx-error-without-ctx-end", "SleepContext returned context.Canceled but cancel() had not been called"))
        if kind == "deadline" and (dl is None or dl > t_ret):
            fails.append(("ctx-error-without-ctx-end", "SleepContext returned context.DeadlineExceeded before the deadline"))
        return fails

    def stats(self, case, obs, acc):
        d = acc.setdefault("results", {})
        s = self.summary(obs)
        k = "incomplete" if (s is None or not self.conclusive(obs)) else s[4].split(":")[0]
        d[k] = d.get(k, 0) + 1
        shape = acc.setdefault("scenario_shapes", {})
        ctxop = next((o for o in case["ops"] if o[0] == "ctx"), ["ctx", "none"])
        ncancel_before = 0
        seen_call = False
        pre = mid = False
        for o in case["ops"]:
            if o[0] == "call":
                seen_call = True
            elif o[0] == "cancel":
                if seen_call:
                    mid = True
                else:
                    pre = True
        key = "%s/%s" % (ctxop[1], "pre-cancelled" if pre else "cancelled-mid-sleep" if mid else "not-cancelled")
        shape[key] = shape.get(key, 0) + 1

    def nontrivial(self, case, obs):
        return any(o[0] == "call" for o in case["ops"])


# ------------------------------------------------------------------------------------------------
# JitterTicker
# ------------------------------------------------------------------------------------------------

def documented(d, j):
    return d > 0 and 0 <= j < d


class TickerSpec(SeqSpec):
    component = "ticker"
    imports = "From Juniper Require Import Common.Base Conc.GoLTS Conc.XTime."
    preamble = ""
    checkers = {"M": "check_ticker"}
    case_type = "nat * list lab"

    def jitters(self, d):
        return [0, 1, d // 2, d - 1]

    def gen_one(self, rng, kind):
        d = rng.choice([2, 3, 4, 6]) * MS
        j = rng.choice(self.jitters(d))
        if kind == "validate-new":
            bad = rng.choice([(0, 0), (-1, 0), (-3 * MS, -5 * MS), (d, d), (d, d + 1), (d, 2 * d), (5, 5), (1, 1)])
            return [["new", bad[0], bad[1]]]
        if kind == "validate-reset":
            bad = rng.choice([(0, 0), (-1, 0), (d, d), (d, d + 1), (1, 2)])
            return [["new", d, j], ["reset", 0, bad[0], bad[1]], ["pause", d], ["stop", 0], ["pause", 3 * d]]
        if kind == "huge":
            return [["new", HUGE_D, HUGE_J]]
        if kind == "huge-wrap":
            # documented arguments (0 <= jitter < d) for which d + offset can exceed the int64 range
            # (several Resets: with the receiver already running every tick is observed)
            ops = [["new", MAX_I64, 1 << 61], ["pause", MS // 2]]
            for _ in range(12):
                ops += [["reset", 0, rng.choice([MAX_I64, MAX_I64 - 5]), 1 << 61], ["pause", MS // 3]]
            return ops + [["stop", 0], ["pause", 2 * MS]]
        if kind == "basic":
            return [["new", d, j], ["pause", rng.randrange(3, 7) * d], ["stop", 0], ["pause", 4 * d]]
        if kind == "stop-race":
            # Stop aimed at the instant the timer fires (next tick is due d - j .. d + j after the last one)
            off = d - j + rng.randrange(-60000, 60000) if rng.random() < 0.7 else d + rng.randrange(-60000, 60000)
            return [["new", d, j], ["aftertick", max(off, 0)], ["stop", 0], ["pause", 4 * d]]
        # resets and stops from several goroutines racing the timer
        ops = [["new", d, j]]
        running = True          # is the ticker known to have a timer (last finished op was New/Reset alone)?
        nth = rng.choice([1, 2, 3])
        for _ in range(rng.randrange(1, 4)):
            d2 = rng.choice([2, 3, 4, 6]) * MS
            j2 = rng.choice(self.jitters(d2))
            off = rng.choice([d - j, d, d2 - j2, d2]) + rng.randrange(-60000, 60000)
            ops.append(rng.choice([["aftertick", max(off, 0)], ["pause", rng.randrange(0, 2 * d)]]))
            burst = rng.choice(["reset", "reset2", "reset+stop", "stop-then-reset"])
            if burst == "reset":
                ops.append(["reset", rng.randrange(0, nth + 1), d2, j2])
            elif burst == "reset2":
                # two or three Resets started together (workers are released by "go", the controller joins in)
                ops.insert(len(ops) - 1, ["hold"])
                ops.append(["reset", 1, d2, j2])
                if nth >= 2:
                    ops.append(["reset", 2, d2 if rng.random() < 0.5 else d, j2 if rng.random() < 0.5 else 0])
                ops.append(["go"])
                ops.append(["reset", 0, d2, j2])
            elif burst == "reset+stop":
                if not running:
                    ops.append(["reset", 0, d2, j2])
                ops.insert(len(ops) - 1, ["hold"])
                ops.append(["reset", 1, d2, j2])
                ops.append(["go"])
                ops.append(["stop", 0])
                running = False
            else:
                if not running:
                    ops.append(["reset", 0, d2, j2])
                ops.append(["stop", rng.randrange(0, nth + 1)])
                ops.append(["join"])
                ops.append(["pause", rng.randrange(0, 3 * d2)])
                ops.append(["reset", rng.randrange(0, nth + 1), d2, j2])
            ops.append(["join"])
            if burst != "reset+stop":
                running = True
                d, j = d2, j2
            if rng.random() < 0.5:
                ops.append(["pause", rng.randrange(1, 4) * d])
        if not running:
            ops.append(["reset", 0, d, j])
            ops.append(["pause", rng.randrange(0, 2 * d)])
        if rng.random() < 0.5:
            ops.append(["aftertick", max(d - j + rng.randrange(-60000, 60000), 0)])
        ops.append(["stop", rng.randrange(0, nth + 1)])
        ops.append(["join"])
        ops.append(["pause", 4 * d])
        return ops

    def gen(self, rng, tier, scale):
        n = int((140 if tier == "quick" else 2000) * scale)
        kinds = ["validate-new", "basic", "stop-race", "race", "race", "validate-reset", "stop-race", "race", "basic", "race"]
        cases = [{"component": "ticker", "ops": self.gen_one(rng, kinds[i % len(kinds)])} for i in range(n)]
        # every documented jitter class at least once, including jitter = 0, plus the out-of-int64 pair
        for d in (2 * MS, 3 * MS):
            for j in self.jitters(d):
                cases.append({"component": "ticker", "ops": [["new", d, j], ["pause", 4 * d], ["reset", 0, d, j], ["pause", 3 * d], ["stop", 0], ["pause", 4 * d]]})
        cases.append({"component": "ticker", "ops": self.gen_one(rng, "huge")})
        for _ in range(6):
            cases.append({"component": "ticker", "ops": self.gen_one(rng, "huge-wrap")})
        return cases

    # ---- helpers on the recorded history
    @staticmethod
    def nthreads(case):
        n = 1
        for o in case["ops"]:
            if o[0] == "reset" or o[0] == "stop":
                n = max(n, o[1] + 1)
        return n

    @staticmethod
    def calls(obs):
        """Completed calls: list of dicts {th, op, d, j, t_call, t_ret, res}; plus pending ones (t_ret None)."""
        open_ = {}
        out = []
        for e in obs["obs"]:
            if e[0] == "call":
                c = {"th": e[1], "op": e[2], "d": e[3], "j": e[4], "t_call": e[-1], "t_ret": None, "res": None}
                open_[e[1]] = c
                out.append(c)
            elif e[0] == "ret":
                c = open_.pop(e[1], None)
                if c is not None:
                    c["t_ret"], c["res"] = e[-1], e[5]
        return out

    def conclusive(self, obs):
        aux = obs.get("aux") or {}
        return not aux.get("hung")

    def coq_case(self, case, obs):
        n = self.nthreads(case)
        if not self.conclusive(obs):
            return "(%d%%nat, [])" % n
        evs = []   # (time, order, text)
        ticks = []
        for i, e in enumerate(obs["obs"]):
            t = e[-1]
            if e[0] == "call" or e[0] == "ret":
                op = {"new": "ONew %s %s" % (z(e[3]), z(e[4])), "reset": "OReset %s %s" % (z(e[3]), z(e[4])), "stop": "OStop"}[e[2]]
                if e[0] == "call":
                    evs.append((t, 1, i, "LCall %d (%s)" % (e[1], op)))
                else:
                    evs.append((t, 1, i, "LRet %d (%s) %s" % (e[1], op, "RNormal" if e[5] == "ok" else "RPanic")))
            elif e[0] == "recv":
                ticks.append(e[1])
        for k, v in enumerate(ticks):
            # the tick value is the clock read inside the callback: it takes its place among the timestamps
            # (before any event logged at the same nanosecond); the receive itself commutes with everything
            # but the sends, so it is placed right after its send
            evs.append((v, 0, k, "LRecv %s" % z(v)))
        evs.sort(key=lambda x: (x[0], x[1], x[2]))
        out = []
        for t, _, _, txt in evs:
            if not txt.startswith("LRet"):      # a return's time is not a lower bound of anything (see XTime.v, Part 3)
                out.append("LTick %s" % z(t))
            out.append(txt)
        return "(%d%%nat, [%s])" % (n, "; ".join(out))

    def oracle(self, case, obs):
        if not self.conclusive(obs):
            return []
        fails = []
        calls = self.calls(obs)
        # 1. argument validation and documented arguments
        for c in calls:
            if c["op"] not in ("new", "reset") or c["res"] is None:
                continue
            d, j = c["d"], c["j"]
            name = "NewJitterTicker" if c["op"] == "new" else "Reset"
            if (d <= 0 or j >= d) and c["res"] != "panic":
                fails.append(("validation-no-panic", "%s(d=%d, jitter=%d) did not panic" % (name, d, j)))
            if documented(d, j) and c["res"] == "panic":
                sig = "documented-args-panic:jitter-zero" if j == 0 else "documented-args-panic"
                if 2 * j > MAX_I64:
                    sig = "documented-args-panic:2*jitter-overflows-int64"
                fails.append((sig, "%s(d=%d, jitter=%d) panicked: %s" % (name, d, j, (obs.get("aux") or {}).get("panic:%s:%d:%d" % (c["op"], d, j)))))
        ticks = [e[1] for e in obs["obs"] if e[0] == "recv"]
        cfgs = [c for c in calls if c["op"] in ("new", "reset") and c["res"] == "ok" and documented(c["d"], c["j"])]
        pending_cfg = [c for c in calls if c["op"] in ("new", "reset") and c["res"] is None]
        # 2. spacing, from the timestamps carried by the ticks
        for a, b in zip(ticks, ticks[1:]):
            # configurations that can have been in force when the timer that sent b was scheduled (at some time in [a, b)):
            # called before b, and not certainly overwritten before a by a later configuration
            cand = []
            for c in cfgs + pending_cfg:
                if c["t_call"] >= b:
                    continue
                over = any(c2 is not c and c["t_ret"] is not None and c2["t_call"] > c["t_ret"] and c2["t_ret"] is not None and c2["t_ret"] < a
                           for c2 in cfgs)
                if not over:
                    cand.append(c)
            if not cand or any(c["res"] is None for c in cand):
                continue
            need = min(c["d"] - c["j"] for c in cand)
            if b - a < need:
                c = min(cand, key=lambda c: c["d"] - c["j"])
                sig = "ticks-too-close:d+jitter-overflows-int64" if all(x["d"] + x["j"] > MAX_I64 for x in cand) else "ticks-too-close"
                fails.append((sig, "two consecutive ticks carry times %d ns apart, less than d - jitter = %d - %d" % (b - a, c["d"], c["j"])))
                break
        # 3. no tick after Stop has returned (unless a New/Reset may have run in between)
        stops = [c for c in calls if c["op"] == "stop" and c["res"] == "ok"]
        restarts = [c for c in calls if c["op"] in ("new", "reset")]
        for v in ticks:
            for s in stops:
                if s["t_ret"] < v:
                    # a restart can explain the tick if its critical section may lie after Stop's and before v
                    expl = any(r["t_call"] < v and (r["t_ret"] is None or r["t_ret"] > s["t_call"]) for r in restarts)
                    if not expl:
                        fails.append(("tick-after-stop", "a tick carrying time %d was sent although Stop had returned by %d and no Reset was called in between" % (v, s["t_ret"])))
                        break
            if fails and fails[-1][0] == "tick-after-stop":
                break
        return fails

    def stats(self, case, obs, acc):
        calls = self.calls(obs)
        ticks = [e[1] for e in obs["obs"] if e[0] == "recv"]
        acc["ticks_total"] = acc.get("ticks_total", 0) + len(ticks)
        acc["calls_total"] = acc.get("calls_total", 0) + len(calls)
        if not self.conclusive(obs):
            acc["inconclusive_hung"] = acc.get("inconclusive_hung", 0) + 1
        jc = acc.setdefault("jitter_classes", {})
        pc = acc.setdefault("panics", {})
        for c in calls:
            if c["op"] in ("new", "reset"):
                d, j = c["d"], c["j"]
                if documented(d, j):
                    k = "0" if j == 0 else "1ns" if j == 1 else "d-1ns" if j == d - 1 else ">=2^62" if 2 * j > MAX_I64 else "other"
                    jc[k] = jc.get(k, 0) + 1
                if c["res"] == "panic":
                    k = "invalid-args" if not documented(d, j) else "documented-but-2*jitter>max_int64" if 2 * j > MAX_I64 else "documented"
                    pc[k] = pc.get(k, 0) + 1
            elif c["op"] == "stop" and c["res"] == "panic":
                pc["stop-with-nil-timer"] = pc.get("stop-with-nil-timer", 0) + 1
        # ticks whose carried time lies inside a Stop call (the race the property names)
        stops = [c for c in calls if c["op"] == "stop" and c["t_ret"] is not None]
        near = sum(1 for v in ticks for s in stops if s["t_call"] - 200000 <= v <= s["t_ret"])
        acc["ticks_within_200us_before_or_during_a_stop"] = acc.get("ticks_within_200us_before_or_during_a_stop", 0) + near
        conc = 0
        for i, a in enumerate(calls):
            for b in calls[i + 1:]:
                if a["th"] != b["th"] and a["t_ret"] is not None and b["t_call"] < a["t_ret"]:
                    conc += 1
        acc["overlapping_call_pairs"] = acc.get("overlapping_call_pairs", 0) + conc

    def nontrivial(self, case, obs):
        return any(o[0] == "new" for o in case["ops"])
