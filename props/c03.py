"""C03 — tree.Map/Set stays balanced and half-full."""
import vlib
from scale_common import ScaleSpec
from tree_common import TreeSpec
from c01 import conc_puts

SPECS = {"scale": (ScaleSpec(['tree', 'tree-gc']), "harness", "runner"), "tree": (TreeSpec("c03"), "harness", "runner")}

PROP_FILES = ["C03"]


def run(ctx):
    proofs_ok = ctx.check_proofs(PROP_FILES, extra_targets=["theories/Tree/Corr.vo"])
    ok, out, exe = vlib.build_runner()
    if not ok:
        ctx.violation("harness-build", "the harness does not build against the current tree: " + out[-1500:], {"build_output": out[-4000:]}, failing_input=False)
        return ctx.finish()
    vlib.seq_differential(ctx, TreeSpec("c03"), exe, proofs_ok, tag="tree")
    okS, outS, exeS = vlib.build_runner()
    if okS:
        vlib.seq_differential(ctx, ScaleSpec(['tree', 'tree-gc']), exeS, proofs_ok, tag="scale")
    else:
        ctx.violation("harness-build", "the harness does not build against the current tree: " + outS[-1500:], {"build_output": outS[-4000:]}, failing_input=False)
    # "the reported Len equals the number of stored keys" also when several goroutines overwrite present keys (documented
    # as safe): the scenario of C01's last sentence, under the race detector
    conc_puts(ctx)
    vlib.merge_parts(ctx, "cases = (order mode: compare natural/reversed/coarse, less natural/coarse; Map or Set) x prefill (ascending, descending, sawtooth, random to 0..260 keys, node-capacity boundaries) "
                     "x random Put/Delete/Get/Contains/Len/First/Last/Range/RangeReverse with all 9 bound-kind pairs; compared with the B-tree model (exact), the sorted-list spec and an independent ideal map; "
                     "distinct = hash of ops; non-trivial = >= 8 ops")
    vlib.handle_broken_proof(ctx)
    ctx.finish()
