"""C15 — container iterators are snapshot-or-panic (deque, heap, priority queue)."""
import vlib
from deque_common import DequeSpec
from heap_common import HeapSpec, PQSpec

SPECS = {"deque": (DequeSpec(iterators=True), "harness", "runner"), "heap": (HeapSpec(iterators=True), "harness", "runner"), "pq": (PQSpec(iterators=True), "harness", "runner")}

PROP_FILES = ["C15_deque", "C15_heap", "TranslatedDeque", "TranslatedHeap", "TranslatedPQ", "TranslatedDequeRun", "TranslatedHeapRun"]


def run(ctx):
    proofs_ok = ctx.check_proofs(PROP_FILES, extra_targets=["theories/Deque/Corr.vo", "theories/Heap/Corr.vo"])
    ok, out, exe = vlib.build_runner()
    if not ok:
        ctx.violation("harness-build", "the harness does not build against the current tree: " + out[-1500:],
                      {"build_output": out[-4000:]}, failing_input=False)
        return ctx.finish()
    spec = DequeSpec(iterators=True)
    part = vlib.seq_differential(ctx, spec, exe, proofs_ok, tag="deque")
    part.get("distribution", {}).pop("_tri", None)
    vlib.seq_differential(ctx, HeapSpec(iterators=True), exe, proofs_ok, tag="heap")
    vlib.seq_differential(ctx, PQSpec(iterators=True), exe, proofs_ok, tag="pq")
    vlib.merge_parts(ctx, "cases = container operation sequences interleaved with creation and Next calls of several live iterators; "
                     "distinct = hash of the op list; non-trivial = >= 5 ops and at least one value observed")
    vlib.handle_broken_proof(ctx)
    ctx.finish()
