"""Heap and PriorityQueue components: generators, Coq printing, direct oracles (C05, heap/queue part of C15)."""
from vlib import SeqSpec, z, zlist


def less_of(mode):
    if mode in (0, 3):
        return lambda a, b: a < b
    if mode == 1:
        return lambda a, b: a > b
    return lambda a, b: a // 4 < b // 4     # values are >= 0


def out_term(o):
    k = o[0]
    if k == "unit":
        return "OUnit"
    if k == "val":
        return "OVal %s" % z(o[1])
    if k == "int":
        return "OInt %s" % z(o[1])
    if k == "bool":
        return "OBool %s" % ("true" if o[1] else "false")
    if k == "list":
        if o[1] == "bad":
            return "OBad"
        return "OList %s" % zlist(o[1])
    if k == "end":
        return "OEnd"
    if k == "panic":
        return "OPanic"
    return "OBad"


class IterOracle:
    """snapshot-or-panic bookkeeping for heap/queue iterators (snapshot at first Next)."""

    def __init__(self):
        self.its = []

    def new(self):
        self.its.append({"snap": None, "yield": [], "stale": False})

    def addrem(self):
        for it in self.its:
            if it["snap"] is not None:
                it["stale"] = True

    def next(self, j, ob, contents, k, fails, same_multiset=True):
        if j >= len(self.its):
            return
        it = self.its[j]
        if ob[0] == "panic":
            return
        if it["snap"] is None:
            it["snap"] = list(contents)     # array order unknown to the oracle: compare as multisets
            it["stale"] = False
        if ob[0] == "val":
            it["yield"].append(ob[1])
            rest = list(it["snap"])
            okp = True
            for y in it["yield"]:
                if y in rest:
                    rest.remove(y)
                else:
                    okp = False
            if not okp:
                fails.append(("iter-wrong-data", "op %d: iterator %d has returned %r which is not part of its snapshot %r" % (k, j, it["yield"], sorted(it["snap"]))))
            elif it["stale"]:
                fails.append(("iter-no-panic-after-add-remove", "op %d: iterator %d returned an item after an element was added/removed (must panic)" % (k, j)))
        elif ob[0] == "end":
            if sorted(it["yield"]) != sorted(it["snap"]):
                fails.append(("iter-early-end", "op %d: iterator %d reported exhaustion after %r but its snapshot is %r" % (k, j, it["yield"], sorted(it["snap"]))))
            elif it["stale"]:
                fails.append(("iter-no-panic-after-add-remove", "op %d: iterator %d reported the end after an element was added/removed (must panic)" % (k, j)))
        else:
            fails.append(("iter-bad-observation", "op %d: %r" % (k, ob)))


class HeapSpec(SeqSpec):
    component = "heap"
    imports = "From Juniper Require Import Common.Base Heap.Model Heap.Corr."
    checkers = {"M": "check_heap"}

    def __init__(self, iterators):
        self.iterators = iterators

    def gen(self, rng, tier, scale):
        n = int((600 if tier == "quick" else 10000) * scale)
        cases = []
        for i in range(n):
            mode = i % 5
            vmax = rng.choice([3, 8, 40, 1000])     # few distinct priorities => many ties
            init = [rng.randint(0, vmax) for _ in range(rng.choice([0, 0, 1, 2, 5, 9, 17, 40]))]
            nops = rng.choice([4, 10, 30, 80] if tier == "quick" else [10, 40, 120, 300])
            w = {"push": 6, "pop": 5, "peek": 2, "len": 1, "grow": 0.5, "shrink": 0.5, "iterate": 0.7}
            if self.iterators:
                w.update({"iternew": 2, "iternext": 7, "iterate": 0})
            names, weights = list(w), list(w.values())
            ops, nit = [], 0
            for _ in range(nops):
                k = rng.choices(names, weights)[0]
                if k == "push":
                    ops.append([k, rng.randint(0, vmax)])
                elif k in ("grow", "shrink"):
                    ops.append([k, rng.choice([0, 1, 5, 33])])
                elif k == "iternew":
                    ops.append([k]); nit += 1
                elif k == "iternext":
                    if nit == 0:
                        ops.append(["iternew"]); nit += 1
                    ops.append([k, rng.randrange(nit)])
                else:
                    ops.append([k])
            cases.append({"component": "heap", "cfg": {"mode": mode, "initial": init, "cmpscale": rng.choice([0, 0, 1, 2])}, "ops": ops})
        return cases

    def op_term(self, op):
        k = op[0]
        return {"push": lambda: "HPush %s" % z(op[1]), "pop": lambda: "HPop", "peek": lambda: "HPeek", "len": lambda: "HLen",
                "grow": lambda: "HGrow %s" % z(op[1]), "shrink": lambda: "HShrink %s" % z(op[1]), "iternew": lambda: "HIterNew",
                "iternext": lambda: "HIterNext %d%%nat" % op[1], "iterate": lambda: "HIterate"}[k]()

    def coq_case(self, case, obs):
        return "(%s, %s,\n [%s],\n [%s])" % (z(case["cfg"]["mode"]), zlist(case["cfg"]["initial"]),
                                             "; ".join(self.op_term(o) for o in case["ops"]),
                                             "; ".join(out_term(o) for o in obs["obs"]))

    def oracle(self, case, obs):
        less = less_of(case["cfg"]["mode"])
        held = list(case["cfg"]["initial"])
        fails = []
        io = IterOracle()
        for k, (op, ob) in enumerate(zip(case["ops"], obs["obs"])):
            n = op[0]
            if n == "push":
                held.append(op[1]); io.addrem()
                if ob != ["unit"]:
                    fails.append(("heap-mismatch:push", "op %d: %r" % (k, ob)))
            elif n in ("pop", "peek"):
                if not held:
                    if ob != ["panic"]:
                        fails.append(("heap-empty-no-panic", "op %d %s on an empty heap returned %r" % (k, n, ob)))
                elif ob[0] != "val" or ob[1] not in held or any(less(y, ob[1]) for y in held):
                    fails.append(("heap-not-minimum", "op %d %s returned %r; held items %r" % (k, n, ob, sorted(held))))
                elif n == "pop":
                    held.remove(ob[1]); io.addrem()
            elif n == "len":
                if ob != ["int", len(held)]:
                    fails.append(("heap-len", "op %d: Len returned %r, expected %d" % (k, ob, len(held))))
            elif n == "iterate":
                if ob[0] != "list" or ob[1] == "bad" or sorted(ob[1]) != sorted(held):
                    fails.append(("iter-unchanged-wrong", "op %d: draining a fresh iterator gave %r; contents %r" % (k, ob, sorted(held))))
            elif n == "iternew":
                io.new()
            elif n == "iternext":
                io.next(op[1], ob, held, k, fails)
            if fails:
                break
        return fails

    def stats(self, case, obs, acc):
        oc = acc.setdefault("ops", {})
        for op, ob in zip(case["ops"], obs["obs"]):
            key = op[0] + ("!panic" if ob[0] == "panic" else "")
            oc[key] = oc.get(key, 0) + 1
        md = acc.setdefault("modes", {})
        md[str(case["cfg"]["mode"])] = md.get(str(case["cfg"]["mode"]), 0) + 1

    def nontrivial(self, case, obs):
        return len(case["ops"]) >= 4 and any(o[0] == "val" for o in obs["obs"])


class PQSpec(SeqSpec):
    component = "pq"
    imports = "From Juniper Require Import Common.Base Heap.Model Heap.Corr."
    checkers = {"M": "check_pq"}

    def __init__(self, iterators):
        self.iterators = iterators

    def gen(self, rng, tier, scale):
        n = int((600 if tier == "quick" else 10000) * scale)
        cases = []
        for i in range(n):
            mode = i % 5
            nk = rng.choice([3, 6, 15, 60])
            pmax = rng.choice([2, 6, 30, 1000])
            init = [[rng.randrange(nk), rng.randint(0, pmax)] for _ in range(rng.choice([0, 0, 1, 3, 7, 16, 30]))]
            nops = rng.choice([4, 10, 30, 80] if tier == "quick" else [10, 40, 120, 300])
            w = {"update": 8, "pop": 3, "peek": 2, "contains": 1.5, "priority": 1.5, "remove": 3, "len": 1, "grow": 0.3, "iterate": 0.7}
            if self.iterators:
                w.update({"iternew": 2, "iternext": 8, "iterate": 0})
            names, weights = list(w), list(w.values())
            ops, nit = [], 0
            for _ in range(nops):
                k = rng.choices(names, weights)[0]
                if k == "update":
                    ops.append([k, rng.randrange(nk), rng.randint(0, pmax)])
                elif k in ("contains", "priority", "remove"):
                    ops.append([k, rng.randrange(nk + 1)])
                elif k == "grow":
                    ops.append([k, rng.choice([0, 3, 40])])
                elif k == "iternew":
                    ops.append([k]); nit += 1
                elif k == "iternext":
                    if nit == 0:
                        ops.append(["iternew"]); nit += 1
                    ops.append([k, rng.randrange(nit)])
                else:
                    ops.append([k])
            cases.append({"component": "pq", "cfg": {"mode": mode, "initial": init, "cmpscale": rng.choice([0, 0, 1, 2])}, "ops": ops})
        return cases

    def op_term(self, op):
        k = op[0]
        return {"update": lambda: "QUpdate %s %s" % (z(op[1]), z(op[2])), "pop": lambda: "QPop", "peek": lambda: "QPeek",
                "contains": lambda: "QContains %s" % z(op[1]), "priority": lambda: "QPriority %s" % z(op[1]),
                "remove": lambda: "QRemove %s" % z(op[1]), "len": lambda: "QLen", "grow": lambda: "QGrow %s" % z(op[1]),
                "iternew": lambda: "QIterNew", "iternext": lambda: "QIterNext %d%%nat" % op[1], "iterate": lambda: "QIterate"}[k]()

    def coq_case(self, case, obs):
        init = "[" + "; ".join("(%s, %s)" % (z(a), z(b)) for a, b in case["cfg"]["initial"]) + "]"
        return "(%s, %s,\n [%s],\n [%s])" % (z(case["cfg"]["mode"]), init,
                                             "; ".join(self.op_term(o) for o in case["ops"]),
                                             "; ".join(out_term(o) for o in obs["obs"]))

    def oracle(self, case, obs):
        less = less_of(case["cfg"]["mode"])
        m = {}
        for k_, p in case["cfg"]["initial"]:
            if k_ not in m:
                m[k_] = p
        fails = []
        io = IterOracle()
        for k, (op, ob) in enumerate(zip(case["ops"], obs["obs"])):
            n = op[0]
            if n == "update":
                if op[1] not in m:
                    io.addrem()                   # a new key is an added element
                m[op[1]] = op[2]                  # an existing key keeps the key set: only the snapshot check applies
            elif n == "remove":
                if op[1] in m:
                    del m[op[1]]; io.addrem()
            elif n in ("pop", "peek"):
                if not m:
                    if ob != ["panic"]:
                        fails.append(("pq-empty-no-panic", "op %d %s on an empty queue returned %r" % (k, n, ob)))
                elif ob[0] != "val" or ob[1] not in m or any(less(p, m[ob[1]]) for p in m.values()):
                    fails.append(("pq-not-minimum", "op %d %s returned %r; mapping %r" % (k, n, ob, m)))
                elif n == "pop":
                    del m[ob[1]]; io.addrem()
            elif n == "contains":
                if ob != ["bool", op[1] in m]:
                    fails.append(("pq-contains", "op %d Contains(%d) = %r; mapping %r" % (k, op[1], ob, m)))
            elif n == "priority":
                if ob != ["int", m.get(op[1], 0)]:
                    fails.append(("pq-priority", "op %d Priority(%d) = %r; mapping %r" % (k, op[1], ob, m)))
            elif n == "len":
                if ob != ["int", len(m)]:
                    fails.append(("pq-len", "op %d Len = %r; mapping %r" % (k, ob, m)))
            elif n == "iterate":
                if ob[0] != "list" or ob[1] == "bad" or sorted(ob[1]) != sorted(m):
                    fails.append(("iter-unchanged-wrong", "op %d: draining a fresh iterator gave %r; keys %r" % (k, ob, sorted(m))))
            elif n == "iternew":
                io.new()
            elif n == "iternext":
                io.next(op[1], ob, list(m), k, fails)
            if fails:
                break
        return fails

    stats = HeapSpec.stats
    nontrivial = HeapSpec.nontrivial
