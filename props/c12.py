"""C12 — chans.Merge / stream.Merge output an interleaving of their inputs, chans.Replicate delivers the
source to every destination, each finishes exactly when its inputs do; stream.Merge reports the first
error and its goroutines finish after Close."""
import vlib
from scale_common import ScaleSpec
from merge_common import ChansSpec, SMergeSpec

PROP_FILES = ["C12"]

SPECS = {"scale": (ScaleSpec(['chans-merge']), "harness", "runner"), "chans": (ChansSpec(), "harness_merge", "runner-merge"),
         "smerge": (SMergeSpec(), "harness_merge", "runner-merge")}


def run(ctx):
    proofs_ok = ctx.check_proofs(PROP_FILES, extra_targets=["theories/Conc/Merge.vo", "theories/Conc/MergeMatcher.vo"])
    ok, out, exe = vlib.build_runner(module="harness_merge", exe_name="runner-merge")
    if not ok:
        ctx.violation("harness-build", "the harness does not build against the current tree: " + out[-1500:],
                      {"build_output": out[-4000:]}, failing_input=False)
        return ctx.finish()
    for tag, (spec, mod_, _) in SPECS.items():
        if mod_ == "harness_merge":
            vlib.seq_differential(ctx, spec, exe, proofs_ok, tag=tag)
            if ctx.tier == "thorough":
                vlib.patience_part(ctx, spec, exe, proofs_ok, tag=tag)
    okS, outS, exeS = vlib.build_runner()
    if okS:
        vlib.seq_differential(ctx, ScaleSpec(['chans-merge']), exeS, proofs_ok, tag="scale")
    else:
        ctx.violation("harness-build", "the harness does not build against the current tree: " + outS[-1500:], {"build_output": outS[-4000:]}, failing_input=False)
    vlib.merge_parts(ctx, "cases = controller scripts run against the real code: chans.Merge with 0,1,2,3,4,5,7 inputs (all four code paths) and "
                     "chans.Replicate with 0-3 destinations over buffered/unbuffered channels, producers and consumers that move only on the controller's "
                     "commands (send/close order, bursts, inputs that close at once or stay silent, slow or absent consumers); stream.Merge over 0-4 gated "
                     "scripted inputs with every error position, consumer contexts that get cancelled, and Close of the output at every point (while workers "
                     "are blocked in an input's Next or in Send). Every recorded history must be accepted by the LTS model (some schedule produces it; at every "
                     "quiescence point the model has nothing enabled and the same number of live worker goroutines) and satisfy the direct oracle; "
                     "distinct = hash of script+configuration; non-trivial = the call is started and >= 3 controller steps")
    ctx.assumptions.append("stream.Merge: an input's Next returns once the context it was given is cancelled (stated by the property; the harness sources do)")
    ctx.assumptions.append("fairness of the Go scheduler is not decided by proof: progress theorems say a step is enabled, the harness checks quiescent states")
    def deep():
        # only when an obligation (e.g. the source census) no longer checks: patience mode, bigger storms
        for tag, (spec, mod_, _) in SPECS.items():
            if mod_ == "harness_merge":
                vlib.patience_part(ctx, spec, exe, proofs_ok, tag=tag, ncases=24, ms=6500)
    vlib.handle_broken_proof(ctx, deep if ctx.tier == "quick" else None)
    ctx.finish(trusted_extra=["harness_merge (separate Go module: producers/consumers/gated sources, goroutine counting by runtime.Stack) and props/merge_common.py"])
