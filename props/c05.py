"""C05 — xheap.Heap and PriorityQueue always hand out a minimum; key map stays exact."""
import vlib
from scale_common import ScaleSpec
from heap_common import HeapSpec, PQSpec

SPECS = {"scale": (ScaleSpec(['heap']), "harness", "runner"), "heap": (HeapSpec(iterators=False), "harness", "runner"), "pq": (PQSpec(iterators=False), "harness", "runner")}

PROP_FILES = ["C05", "TranslatedHeap", "TranslatedPQ", "TranslatedHeapRun"]


def run(ctx):
    proofs_ok = ctx.check_proofs(PROP_FILES, extra_targets=["theories/Heap/Corr.vo"])
    ok, out, exe = vlib.build_runner()
    if not ok:
        ctx.violation("harness-build", "the harness does not build against the current tree: " + out[-1500:], {"build_output": out[-4000:]}, failing_input=False)
        return ctx.finish()
    vlib.seq_differential(ctx, HeapSpec(iterators=False), exe, proofs_ok, tag="heap")
    vlib.seq_differential(ctx, PQSpec(iterators=False), exe, proofs_ok, tag="pq")
    okS, outS, exeS = vlib.build_runner()
    if okS:
        vlib.seq_differential(ctx, ScaleSpec(['heap']), exeS, proofs_ok, tag="scale")
    else:
        ctx.violation("harness-build", "the harness does not build against the current tree: " + outS[-1500:], {"build_output": outS[-4000:]}, failing_input=False)
    vlib.merge_parts(ctx, "cases = (ordering mode in {less natural, less reversed, less coarse(ties), cmp natural, cmp coarse}, initial slice incl. duplicate keys, "
                     "op sequence over few distinct priorities); distinct = hash of ops; non-trivial = >= 4 ops and a Pop/Peek value observed")
    vlib.handle_broken_proof(ctx)
    ctx.finish()
