"""C20 — xtime.SleepContext returns nil only after d, DeadlineTooSoonError exactly when the deadline is
closer than d, the context's error if the context ends first; a JitterTicker with documented arguments
does not panic, its ticks are never closer than d - jitter, and no tick is sent after Stop returns."""
import vlib
from xtime_common import SleepSpec, TickerSpec

PROP_FILES = ["C20"]


SPECS = {"sleep": (SleepSpec(), "harness_xtime", "runner-xtime"), "ticker": (TickerSpec(), "harness_xtime", "runner-xtime")}


def run(ctx):
    proofs_ok = ctx.check_proofs(PROP_FILES, extra_targets=["theories/Conc/XTime.vo"])
    ok, out, exe = vlib.build_runner(module="harness_xtime", exe_name="runner-xtime")
    if not ok:
        ctx.violation("harness-build", "the harness does not build against the current tree: " + out[-1500:], {"build_output": out[-4000:]}, failing_input=False)
        return ctx.finish()
    vlib.seq_differential(ctx, SleepSpec(), exe, proofs_ok, tag="sleep")
    vlib.seq_differential(ctx, TickerSpec(), exe, proofs_ok, tag="ticker")
    vlib.merge_parts(ctx, "sleep: one SleepContext call per case on a real context (no deadline / deadline >= 2d+50ms away / deadline <= d/2 away or already passed / "
                     "already cancelled / cancelled mid-sleep by the controller), d <= 0 included; ticker: controller scripts (NewJitterTicker, Reset and Stop from up to 4 "
                     "goroutines, aimed at the instant the timer fires, d of 2-6 ms, jitter in {0, 1ns, d/2, d-1ns}, invalid arguments, the out-of-int64 pair) with a receiver "
                     "draining C; every recorded history (events with their monotonic timestamps, ticks placed by the time they CARRY) must be accepted by the LTS model, and "
                     "the property's clauses are evaluated directly with one-sided bounds; distinct = hash of script; non-trivial = contains a call / a NewJitterTicker")
    ctx.assumptions.append("time: the model's clock is the process's monotonic clock; a timer may fire arbitrarily later than its deadline; no upper bound on any latency is "
                           "asserted anywhere (liveness of SleepContext is covered by the progress theorem of the model only)")
    ctx.assumptions.append("JitterTicker: no-panic and spacing are proved for every documented (d, jitter) in the int64 range (C20_ticker_no_panic, "
                           "C20_ticker_delay_documented: the delay lies in [d - jitter, max_int64]); the pre-fix computation is kept only for the refuted witnesses "
                           "C20_ticker_orig_panics_refuted / C20_ticker_orig_spacing_refuted")
    ctx.assumptions.append("'no tick after Stop' is stated for the interval in which no NewJitterTicker/Reset critical section executes (a concurrent or later Reset legitimately "
                           "restarts the ticker); Stop on an already stopped ticker (nil timer) panics with the mutex held - outside the property, modelled, never exercised by generated scripts")
    vlib.handle_broken_proof(ctx)
    ctx.finish(trusted_extra=["harness_xtime (separate Go module: timestamps taken under the log mutex, tick values read from C) and props/xtime_common.py"])
