"""C11 — stream.Batch partitions its source under every timing and Close always returns."""
import vlib
from batch_common import BatchSpec

PROP_FILES = ["C11"]


SPECS = {"batch": (BatchSpec(), "harness_batch", "runner-batch")}


def run(ctx):
    proofs_ok = ctx.check_proofs(PROP_FILES, extra_targets=["theories/Conc/Batch.vo", "theories/Conc/BatchMatcher.vo"])
    ok, out, exe = vlib.build_runner(module="harness_batch", exe_name="runner-batch")
    if not ok:
        ctx.violation("harness-build", "the harness does not build against the current tree: " + out[-1500:], {"build_output": out[-4000:]}, failing_input=False)
        return ctx.finish()
    vlib.seq_differential(ctx, BatchSpec(), exe, proofs_ok, tag="batch")
    if ctx.tier == "thorough":
        vlib.patience_part(ctx, BatchSpec(), exe, proofs_ok, tag="batch")
    vlib.merge_parts(ctx, "cases = controller scripts (gated source releasing items singly/in bursts then End or an error, optional gated full(), consumer Next calls with live/cancelled contexts "
                     "incl. successive and concurrent waiters, sleeps past maxWait, Close at any point) run against the real Batch/BatchFunc; each recorded history must be accepted by the LTS model "
                     "(some schedule produces it; every quiescence point is a model state with nothing enabled and no timer running) and satisfy the direct oracle (partition, sizes, error position, "
                     "one-sided maxWait bound on timestamps, Close returns, source closed exactly once, nothing held back at quiescence); distinct = hash of script; non-trivial = >= 1 release and >= 1 Next/Close")
    def deep():
        # only when an obligation (e.g. the source census) no longer checks: patience mode, bigger storms
        vlib.patience_part(ctx, BatchSpec(), exe, proofs_ok, tag="batch", ncases=16, ms=6500)
    vlib.handle_broken_proof(ctx, deep if ctx.tier == "quick" else None)
    ctx.finish(assumptions=["the source's Next returns once the context passed to it is cancelled (the harness source does)",
                            "timer channels follow the pre-Go-1.23 semantics selected by the repository's go.mod (go 1.18)"])
