"""C18 — specs (generator, Coq printing, direct oracle) for the four components of harness_watch:
watch (xsync.Watchable), future (xsync.Future), lazy (xsync.Lazy) and xmap (xsync.Map vs sync.Map)."""
from vlib import SeqSpec, z

CONC_IMPORTS = "From Juniper Require Import Common.Base Conc.GoLTS Conc.Watch Conc.Future."


def cb(b):
    return "true" if b else "false"


def optnat(g):
    return "None" if g is None or g < 0 else "(Some %d)" % g


def quiescent(obs):
    return bool(obs.get("aux", {}).get("quiescent", True))


def count_dist(acc, key, val):
    d = acc.setdefault(key, {})
    d[str(val)] = d.get(str(val), 0) + 1


# ====================================================================== Watchable

class WatchSpec(SeqSpec):
    component = "watch"
    imports = CONC_IMPORTS
    # M: the matcher on canonical states (Watch.canon); P: cross-check of that state reduction against the
    # plain matcher on the smaller scenarios (both must accept)
    preamble = ("Local Open Scope nat_scope.\n"
                "Definition chk (c : list (option nat * list Watch.act) * nat * list Watch.lab) : bool :=\n"
                "  let '(cfg, n, evs) := c in Watch.accepts_history cfg n evs.\n"
                "Definition chkp (c : list (option nat * list Watch.act) * nat * list Watch.lab) : bool :=\n"
                "  let '(cfg, n, evs) := c in\n"
                "  if Nat.leb (length (flat_map snd cfg)) 9 then Watch.accepts_history_plain cfg n evs else true.")
    checkers = {"M": "chk", "P": "chkp"}

    def gen_one(self, rng, kind, maxpar=3):
        threads = []
        ops = []
        seqno = {}

        def setv(t):
            seqno[t] = seqno.get(t, 0) + 1
            return (t + 1) * 1000 + seqno[t]

        def add(gate, prog):
            threads.append({"gate": gate, "prog": prog})
            return len(threads) - 1

        def prog_for(t, n, pset):
            p = []
            for _ in range(n):
                p.append(["set", setv(t)] if rng.random() < pset else ["value"])
            return p

        # The matcher explores every schedule compatible with the recorded history: its cost grows
        # with the number of calls in flight at the same time, so at most MAXPAR goroutines
        # (racing group + observers, which wake up on every Set) are active together
        # (3 in the quick tier, 4 in the thorough tier).
        MAXPAR = maxpar
        ngates = 0
        nwatch = rng.choice([0, 1, 1, 2])
        if kind == "storm":
            # many Sets racing each other (Set from several goroutines is allowed by the type: atomic Swap)
            grp = []
            for i in range(MAXPAR):
                t = add(0, None)
                threads[t]["prog"] = [["set", setv(t)] for _ in range(rng.choice([4, 6, 6, 8]))]
                grp.append(t)
            ops += [["spawn", t] for t in grp]
            ops.append(["release", 0])
            ngates = 1
        elif kind == "held":
            # the window between Value's return and the caller's look at the channel: a caller is held
            # there (gate 1) while Sets happen, then released: it must find the channel closed
            pre = rng.random() < 0.6
            if pre:
                ops.append(["spawn", add(-1, [["set", setv(0)]])])
                ops.append(["quiesce"])
            holders = [add(-1, [["value-held", 1]] + ([["value"]] if rng.random() < 0.5 else [])) for _ in range(rng.choice([1, 1, 2]))]
            ops += [["spawn", t] for t in holders]
            if rng.random() < 0.8:
                ops.append(["quiesce"])
            n = rng.choice([0, 1, 1, 2]) if len(holders) == 1 else rng.choice([0, 1])
            grp = []
            for _ in range(n):
                t = add(0, None)
                threads[t]["prog"] = prog_for(t, rng.choice([1, 2]), 0.8)
                grp.append(t)
            ops += [["spawn", t] for t in grp]
            ops.append(["release", 0])
            if rng.random() < 0.8:
                ops.append(["quiesce"])
            ops.append(["release", 1])
            ngates = 2
        elif kind == "first-set-race":
            # Value racing the very first Set: nothing set before the group starts
            nwatch = min(nwatch, 1)
            n = min(rng.choice([2, 3, 3]), MAXPAR - nwatch)
            grp = []
            for i in range(n):
                t = add(0, None)
                threads[t]["prog"] = [["set", setv(t)]] if i == 0 else ([["value"]] if i < n - 1 or rng.random() < 0.5 else [["set", setv(t)]])
                if rng.random() < 0.4:
                    threads[t]["prog"] += prog_for(t, rng.choice([1, 2]), 0.5)
                grp.append(t)
            for _ in range(nwatch):
                grp.append(add(0, [["watch"]]))
            rng.shuffle(grp)
            ops += [["spawn", t] for t in grp]
            if rng.random() < 0.5:
                ops.append(["quiesce"])
            ops.append(["release", 0])
            ngates = 1
        else:
            # watchers first (ungated or behind their own gate), then one or two racing groups
            nw = 0
            for _ in range(nwatch):
                if rng.random() < 0.5:
                    ops.append(["spawn", add(-1, [["watch"]])])
                    nw += 1
            if ops and rng.random() < 0.5:
                ops.append(["quiesce"])
            ngroups = rng.choice([1, 1, 2])
            for g in range(ngroups):
                if g > 0 and ops[-1] != ["quiesce"]:
                    ops.append(["quiesce"])      # groups do not overlap
                n = min(rng.choice([1, 2, 2, 3, 3, 4]), MAXPAR - nw)
                grp = []
                for i in range(n):
                    t = add(g, None)
                    pset = rng.choice([0.3, 0.5, 0.7, 1.0])
                    threads[t]["prog"] = prog_for(t, rng.choice([1, 2, 2, 3, 4]), pset)
                    grp.append(t)
                if n + nw < MAXPAR and rng.random() < 0.4:
                    grp.append(add(g, [["watch"]]))
                    nw += 1
                rng.shuffle(grp)
                ops += [["spawn", t] for t in grp]
                if rng.random() < 0.3:
                    ops.append(["quiesce"])
                ops.append(["release", g])
                if rng.random() < 0.6:
                    ops.append(["quiesce"])
                ngates = g + 1
        # a late caller: after everything has settled
        if rng.random() < 0.8:
            ops.append(["quiesce"])
            ops.append(["spawn", add(-1, [["value"]])])
        return {"component": "watch", "ops": ops, "cfg": {"threads": threads, "ngates": ngates}}

    def gen(self, rng, tier, scale):
        n = int((200 if tier == "quick" else 2400) * scale)
        cases = [self.gen_one(rng, ("first-set-race", "groups", "held", "groups", "storm")[i % 5], 3 if tier == "quick" else 4) for i in range(n)]
        for c in cases:
            # a third of the scenarios run on Watchable[error] where the value 0 is the nil error; some Sets then set 0
            if rng.random() < 0.33:
                c["cfg"]["inst"] = "iface"
                for th in c["cfg"]["threads"]:
                    for a in th["prog"]:
                        if a[0] == "set" and rng.random() < 0.3:
                            a[1] = 0
        return cases

    def coq_case(self, case, obs):
        ths = []
        for th in case["cfg"]["threads"]:
            acts = []
            for a in th["prog"]:
                if a[0] == "set":
                    acts.append("ASet %s%%Z" % z(a[1]))
                elif a[0] == "value":
                    acts.append("AValue")
                elif a[0] == "value-held":
                    acts.append("AValueHeld %d" % a[1])
                else:
                    acts.append("AWatch")
            ths.append("(%s, [%s])" % (optnat(th.get("gate", -1)), "; ".join(acts)))
        evs = []
        for e in obs["obs"]:
            k = e[0]
            if k == "spawn":
                evs.append("Watch.LSpawn %d" % e[1])
            elif k == "release":
                evs.append("Watch.LRelease %d" % e[1])
            elif k == "quiesce":
                if e[1]:
                    evs.append("Watch.LQuiesce")
            elif k == "call-set":
                evs.append("LCallSet %d %s%%Z" % (e[1], z(e[2])))
            elif k == "ret-set":
                evs.append("LRetSet %d" % e[1])
            elif k == "call-value":
                evs.append("LCallValue %d" % e[1])
            elif k == "ret-value":
                evs.append("LRetValue %d %s%%Z %s" % (e[1], z(e[2]), cb(e[3])))
            elif k == "panic":
                evs.append("LPanic %d" % e[1])
        return "([%s], %d, [%s])" % ("; ".join(ths), int(case["cfg"].get("ngates", 0)), "; ".join(evs))

    def oracle(self, case, obs):
        if case["cfg"].get("inst") == "iface" and any(a[0] == "set" and a[1] == 0 for th in case["cfg"]["threads"] for a in th["prog"]):
            # the clauses below tell the Sets apart by their (distinct) values; with Set(0) = Set(nil) on Watchable[error]
            # the value 0 is also the initial one: such histories are judged by the model's matcher alone (sound and complete)
            return []
        if not quiescent(obs):
            return []
        evs = obs["obs"]
        fails = []
        sets = {}       # value -> [call index, ret index or None]
        open_set = {}   # thread -> value
        vals = []       # dicts: t, call, ret, v, closed, ch
        open_val = {}
        for i, e in enumerate(evs):
            k = e[0]
            if k == "call-set":
                sets[e[2]] = [i, None]
                open_set[e[1]] = e[2]
            elif k == "ret-set":
                v = open_set.pop(e[1], None)
                if v is not None:
                    sets[v][1] = i
            elif k == "call-value":
                open_val[e[1]] = i
            elif k == "ret-value":
                ci = open_val.pop(e[1], None)
                vals.append({"t": e[1], "call": ci if ci is not None else i, "ret": i, "v": e[2], "closed": e[3], "ch": e[4]})
            elif k == "panic":
                fails.append(("panic", "event %d: goroutine %d panicked: %s" % (i, e[1], e[2] if len(e) > 2 else "")))

        INF = 10 ** 9

        def s_call(v):
            return -1 if v == 0 else sets[v][0]

        def s_ret(v):
            # the empty cell (zero value) precedes every Set
            if v == 0:
                return -1
            return sets[v][1] if sets[v][1] is not None else INF

        def precedes(a, b):
            """cell a was certainly replaced before cell b was installed"""
            if a == b:
                return False
            if a == 0:
                return True
            if b == 0:
                return False
            return s_ret(a) < s_call(b)

        ch_val = {}
        val_ch = {}
        for r in vals:
            v = r["v"]
            if v != 0 and (v not in sets or sets[v][0] > r["ret"]):
                fails.append(("value-from-nowhere", "event %d: Value returned %d, which no Set called before had as argument" % (r["ret"], v)))
                continue
            # staleness: some other Set returned before this Value was called, and v's Set (or the empty cell) is certainly older
            for w, (c, rt) in sets.items():
                if w != v and rt is not None and rt < r["call"] and precedes(v, w):
                    fails.append(("stale-value", "event %d: Value (called at event %d) returned %d although Set(%d) had already returned (event %d) and is newer"
                                  % (r["ret"], r["call"], v, w, rt)))
                    break
            if r["closed"]:
                if not any(w != v and c < r["ret"] and not precedes(w, v) for w, (c, rt) in sets.items()):
                    fails.append(("closed-without-later-set", "event %d: the channel returned with value %d is closed but no later Set had been called" % (r["ret"], v)))
            if ch_val.setdefault(r["ch"], v) != v or val_ch.setdefault(v, r["ch"]) != r["ch"]:
                fails.append(("cell-identity", "event %d: value %d / channel #%d do not identify the same cell as in an earlier result" % (r["ret"], v, r["ch"])))
        # real-time order between Value results
        for a in vals:
            for b in vals:
                if a["ret"] < b["call"]:
                    if a["v"] != b["v"] and (b["v"] == 0 or b["v"] in sets) and (a["v"] == 0 or a["v"] in sets) and precedes(b["v"], a["v"]):
                        fails.append(("went-backwards", "Value at event %d returned %d after a Value that had completed (event %d) returned the newer %d"
                                      % (b["ret"], b["v"], a["ret"], a["v"])))
                    if a["ch"] == b["ch"] and a["closed"] and not b["closed"]:
                        fails.append(("reopened", "channel #%d observed closed at event %d and open at event %d" % (a["ch"], a["ret"], b["ret"])))
        # final quiescence
        aux = obs.get("aux", {})
        pending_sets = [v for v, (c, rt) in sets.items() if rt is None]
        if pending_sets:
            fails.append(("set-stuck", "Set(%r) has not returned at quiescence" % pending_sets))
        if open_val:
            fails.append(("value-stuck", "Value of goroutine(s) %r has not returned at quiescence" % sorted(open_val)))
        fin = aux.get("final")
        if fin and not pending_sets:
            fv, fclosed, fch = fin
            if fclosed:
                fails.append(("final-cell-closed", "at quiescence the current cell (value %d) has a closed channel" % fv))
            if fv != 0 and fv not in sets:
                fails.append(("value-from-nowhere", "final Value returned %d, never Set" % fv))
            elif any(precedes(fv, w) for w in sets):
                fails.append(("final-not-last-set", "at quiescence Value returns %d although a Set called after that one returned exists" % fv))
            for cid, cv, closed in aux.get("final_closed") or []:
                if cid != fch and not closed:
                    fails.append(("old-cell-open-at-quiescence", "at quiescence (all Sets returned) the channel of the old cell with value %d is still open; current value %d" % (cv, fv)))
            # observers: the documented loop must have ended up with the final value
            last = {}
            for r in vals:
                last[r["t"]] = r
            for t, th in enumerate(case["cfg"]["threads"]):
                if th["prog"] and th["prog"][-1][0] == "watch" and t in last and t not in open_val:
                    # only once the observer has reached its loop
                    is_loop = len(th["prog"]) == 1 or sum(1 for r in vals if r["t"] == t) > sum(1 for a in th["prog"] if a[0] in ("value", "value-held"))
                    if is_loop and last[t]["v"] != fv:
                        fails.append(("observer-missed-final-value", "observer goroutine %d is parked with value %d but the final value is %d" % (t, last[t]["v"], fv)))
        return fails

    def stats(self, case, obs, acc):
        evs = obs["obs"]
        count_dist(acc, "threads", len(case["cfg"]["threads"]))
        count_dist(acc, "sets", sum(1 for e in evs if e[0] == "call-set"))
        count_dist(acc, "observers", sum(1 for th in case["cfg"]["threads"] if ["watch"] in th["prog"]))
        acc["values_total"] = acc.get("values_total", 0) + sum(1 for e in evs if e[0] == "ret-value")
        acc["zero_value_results"] = acc.get("zero_value_results", 0) + sum(1 for e in evs if e[0] == "ret-value" and e[2] == 0)
        acc["closed_results"] = acc.get("closed_results", 0) + sum(1 for e in evs if e[0] == "ret-value" and e[3])
        # real overlap: a Set or Value invoked while another goroutine's Set is in progress
        inprog = set()
        overl = 0
        for e in evs:
            if e[0] == "call-set":
                overl += 1 if inprog else 0
                inprog.add(e[1])
            elif e[0] == "ret-set":
                inprog.discard(e[1])
            elif e[0] in ("call-value", "ret-value") and inprog:
                overl += 1
        acc["events_overlapping_a_set"] = acc.get("events_overlapping_a_set", 0) + overl
        acc["inconclusive_no_quiescence"] = acc.get("inconclusive_no_quiescence", 0) + (0 if quiescent(obs) else 1)
        acc["events_total"] = acc.get("events_total", 0) + len(evs)

    def nontrivial(self, case, obs):
        evs = obs["obs"]
        return any(e[0] == "call-set" for e in evs) and any(e[0] == "ret-value" for e in evs)


# ====================================================================== Future

class FutureSpec(SeqSpec):
    ctx_zoo = True      # contexts come from the zoo (cause / DeadlineExceeded / plain), see vlib.apply_ctx_zoo
    component = "future"
    imports = CONC_IMPORTS
    preamble = ("Local Open Scope nat_scope.\nImport Fut.\n"
                "Definition chk (c : list (option nat * Fut.kind) * nat * nat * list Fut.lab) : bool :=\n"
                "  let '(cfg, nctx, ng, evs) := c in Fut.accepts_history cfg nctx ng evs.")
    checkers = {"M": "chk"}

    def gen_one(self, rng):
        threads = []
        ops = []
        nctx = 0

        def waiter(gate):
            nonlocal nctx
            if rng.random() < 0.5:
                threads.append({"gate": gate, "kind": "wait"})
            else:
                c = nctx if (nctx == 0 or rng.random() < 0.7) else rng.randrange(nctx)
                nctx = max(nctx, c + 1)
                threads.append({"gate": gate, "kind": "waitctx", "ctx": c})
            return len(threads) - 1

        def maybe_cancel(p):
            if nctx and rng.random() < p:
                ops.append(["cancel", rng.randrange(nctx)])

        # earlier waiters
        for _ in range(rng.choice([0, 1, 1, 2])):
            ops.append(["spawn", waiter(-1)])
        if ops and rng.random() < 0.6:
            ops.append(["quiesce"])
        maybe_cancel(0.3)
        if rng.random() < 0.3:
            ops.append(["quiesce"])
        # the racing group: Fill against Wait / WaitContext (and a cancel)
        has_fill = rng.random() < 0.85
        grp = []
        second = None
        if has_fill:
            threads.append({"gate": 0, "kind": "fill", "v": rng.choice([7, 42, -3, 1000001])})
            grp.append(len(threads) - 1)
            if rng.random() < 0.3:
                # a second Fill (documented to panic): racing the first one, or later; the value must not change
                threads.append({"gate": 0 if rng.random() < 0.5 else -1, "kind": "fill", "v": rng.choice([8, 43, -4, 5])})
                second = len(threads) - 1
                if threads[second]["gate"] == 0:
                    grp.append(second)
        for _ in range(rng.choice([0, 1, 2, 2, 3])):
            grp.append(waiter(0))
        rng.shuffle(grp)
        ops += [["spawn", t] for t in grp]
        if rng.random() < 0.4:
            ops.append(["quiesce"])
        ops.append(["release", 0])
        maybe_cancel(0.5)          # races the Fill
        if rng.random() < 0.7:
            ops.append(["quiesce"])
        maybe_cancel(0.3)
        if second is not None and threads[second]["gate"] == -1:
            ops.append(["spawn", second])
            if rng.random() < 0.5:
                ops.append(["quiesce"])
        # later waiters (some with a context that has already ended: an already filled future wins)
        for _ in range(rng.choice([0, 1, 1, 2, 3])):
            if nctx and rng.random() < 0.4:
                c = rng.randrange(nctx)
                ops.append(["cancel", c])
                if rng.random() < 0.7:
                    ops.append(["quiesce"])
                threads.append({"gate": -1, "kind": "waitctx", "ctx": c})
                ops.append(["spawn", len(threads) - 1])
            else:
                ops.append(["spawn", waiter(-1)])
        maybe_cancel(0.2)
        return {"component": "future", "ops": ops, "cfg": {"threads": threads, "nctx": max(nctx, 1), "ngates": 1}}

    def gen(self, rng, tier, scale):
        n = int((160 if tier == "quick" else 2500) * scale)
        return [self.gen_one(rng) for _ in range(n)]

    def coq_case(self, case, obs):
        ths = []
        nctx = int(case["cfg"].get("nctx", 1))
        for th in case["cfg"]["threads"]:
            k = th["kind"]
            kt = "KFill %s%%Z" % z(th["v"]) if k == "fill" else ("KWait" if k == "wait" else "KWaitCtx %d" % th["ctx"])
            ths.append("(%s, %s)" % (optnat(th.get("gate", -1)), kt))
        for op in case["ops"]:
            if op[0] == "cancel":
                nctx = max(nctx, op[1] + 1)
        evs = []
        for e in obs["obs"]:
            k = e[0]
            if k == "spawn":
                evs.append("LSpawn %d" % e[1])
            elif k == "release":
                evs.append("LRelease %d" % e[1])
            elif k == "cancel":
                evs.append("LCancel %d" % e[1])
            elif k == "quiesce":
                if e[1]:
                    evs.append("LQuiesce")
            elif k == "call-fill":
                evs.append("LCallFill %d %s%%Z" % (e[1], z(e[2])))
            elif k == "ret-fill":
                evs.append("LRetFill %d" % e[1])
            elif k == "panic-fill":
                evs.append("LPanicFill %d" % e[1])
            elif k == "call-wait":
                evs.append("LCallWait %d" % e[1])
            elif k == "ret-wait":
                evs.append("LRetWait %d %s%%Z" % (e[1], z(e[2])))
            elif k == "call-waitctx":
                evs.append("LCallWaitCtx %d %d" % (e[1], e[2]))
            elif k == "ret-waitctx":
                evs.append("LRetWaitCtx %d %s%%Z %s" % (e[1], z(e[2]), cb(bool(e[3]))))
        return "([%s], %d, %d, [%s])" % ("; ".join(ths), nctx, int(case["cfg"].get("ngates", 1)), "; ".join(evs))

    def oracle(self, case, obs):
        if not quiescent(obs):
            return []
        evs = obs["obs"]
        fails = []
        nfill_cfg = sum(1 for th in case["cfg"]["threads"] if th["kind"] == "fill")
        fills = {}            # thread -> [value, index of call, "ret" / "panic" / None, index]
        for i, e in enumerate(evs):
            if e[0] == "call-fill":
                fills[e[1]] = [e[2], i, None, None]
            elif e[0] in ("ret-fill", "panic-fill") and e[1] in fills:
                fills[e[1]][2:] = [e[0][:-5], i]
        winners = [t for t, f in fills.items() if f[2] == "ret"]
        if len(winners) > 1:
            fails.append(("two-fills-succeeded", "Fill returned normally in goroutines %r: a Future can be filled exactly once" % winners))
        if fills and not winners and all(f[2] is not None for f in fills.values()):
            fails.append(("every-fill-panicked", "%d Fill calls were made and every one panicked" % len(fills)))
        if nfill_cfg <= 1 and any(f[2] == "panic" for f in fills.values()):
            fails.append(("fill-panicked", "the only Fill of the scenario panicked"))
        win_v = fills[winners[0]][0] if len(winners) == 1 else None
        win_ret = fills[winners[0]][3] if len(winners) == 1 else None
        first_fill_call = min((f[1] for f in fills.values()), default=None)
        cancelled = {}
        pending = {}
        seen_values = set()
        for i, e in enumerate(evs):
            k = e[0]
            if k == "cancel":
                cancelled.setdefault(e[1], i)
            elif k == "call-wait":
                pending[e[1]] = ("wait", None, i)
            elif k == "call-waitctx":
                pending[e[1]] = ("waitctx", e[2], i)
            elif k == "ret-waitctx" and isinstance(e[3], str):
                pending.pop(e[1], None)
                fails.append(("wrong-error", "event %d: WaitContext returned %r, which is not its context's error" % (i, e[3][6:])))
            elif k == "ret-wait" or (k == "ret-waitctx" and not e[3]):
                pending.pop(e[1], None)
                seen_values.add(e[2])
                if first_fill_call is None or first_fill_call > i:
                    fails.append(("returned-without-fill", "event %d: %s returned %r before any Fill was called" % (i, k, e[2])))
                elif win_v is not None and e[2] != win_v:
                    fails.append(("wrong-value", "event %d: %s returned %r but the future was filled with %r (the Fill that returned normally)" % (i, k, e[2], win_v)))
            elif k == "ret-waitctx" and e[3]:
                kind, c, ci = pending.pop(e[1], ("waitctx", None, i))
                if c is not None and c not in cancelled:
                    fails.append(("ctx-error-without-cancel", "event %d: WaitContext returned an error but context %d was never cancelled" % (i, c)))
                if e[2] != 0:
                    fails.append(("error-with-value", "event %d: WaitContext returned an error together with the non-zero value %r" % (i, e[2])))
                if win_ret is not None and ci > win_ret:
                    fails.append(("late-waiter-not-served", "event %d: WaitContext called (event %d) after Fill had returned (event %d) gave the context error instead of the value" % (i, ci, win_ret)))
        if len(seen_values) > 1:
            fails.append(("value-changed", "waiters of one Future obtained different values %r" % sorted(seen_values)))
        for t, f in sorted(fills.items()):
            if f[2] is None:
                fails.append(("fill-stuck", "Fill of goroutine %d has not returned at quiescence" % t))
        for t, (kind, c, ci) in sorted(pending.items()):
            if win_ret is not None:
                fails.append(("waiter-stuck-after-fill", "goroutine %d: %s still blocked at quiescence although Fill has returned" % (t, kind)))
            elif kind == "waitctx" and c in cancelled:
                fails.append(("waitctx-ignores-cancel", "goroutine %d: WaitContext still blocked at quiescence although context %d was cancelled" % (t, c)))
        return fails

    def stats(self, case, obs, acc):
        evs = obs["obs"]
        count_dist(acc, "threads", len(case["cfg"]["threads"]))
        fill_ret = next((i for i, e in enumerate(evs) if e[0] == "ret-fill"), None)
        fill_call = next((i for i, e in enumerate(evs) if e[0] == "call-fill"), None)
        for i, e in enumerate(evs):
            if e[0] in ("call-wait", "call-waitctx"):
                w = "no-fill" if fill_call is None else ("before-fill" if i < fill_call else ("during-fill" if fill_ret is None or i < fill_ret else "after-fill"))
                count_dist(acc, "waiter_started", w)
            if e[0] == "ret-waitctx":
                count_dist(acc, "waitctx_result", "ctx-error" if e[3] else "value")
        acc["inconclusive_no_quiescence"] = acc.get("inconclusive_no_quiescence", 0) + (0 if quiescent(obs) else 1)
        acc["events_total"] = acc.get("events_total", 0) + len(evs)

    def nontrivial(self, case, obs):
        evs = obs["obs"]
        return any(e[0] in ("call-wait", "call-waitctx") for e in evs) and any(e[0] in ("call-fill", "cancel") for e in evs)


# ====================================================================== Lazy

class LazySpec(SeqSpec):
    component = "lazy"
    imports = CONC_IMPORTS
    preamble = ("Local Open Scope nat_scope.\nImport Lazy.\n"
                "Definition chk (c : list (option nat * nat) * bool * Z * nat * list Lazy.lab) : bool :=\n"
                "  let '(cfg, gated, base, ng, evs) := c in Lazy.accepts_history cfg gated base ng evs.")
    checkers = {"M": "chk"}

    def gen_one(self, rng):
        threads = []
        ops = []
        fgated = rng.random() < 0.6
        n = rng.choice([1, 2, 3, 3, 4, 5, 6])
        grp = []
        for _ in range(n):
            threads.append({"gate": 0, "calls": rng.choice([1, 1, 1, 2])})
            grp.append(len(threads) - 1)
        ops += [["spawn", t] for t in grp]
        if rng.random() < 0.4:
            ops.append(["quiesce"])
        ops.append(["release", 0])            # concurrent first calls
        if rng.random() < 0.7:
            ops.append(["quiesce"])
        if fgated and rng.random() < 0.5:
            # more callers while f is running
            for _ in range(rng.choice([1, 2])):
                threads.append({"gate": -1, "calls": 1})
                ops.append(["spawn", len(threads) - 1])
            if rng.random() < 0.5:
                ops.append(["quiesce"])
        if fgated and rng.random() < 0.9:
            ops.append(["release-f"])
            if rng.random() < 0.6:
                ops.append(["quiesce"])
        for _ in range(rng.choice([0, 1, 1, 2])):   # later callers
            threads.append({"gate": -1, "calls": rng.choice([1, 2])})
            ops.append(["spawn", len(threads) - 1])
        return {"component": "lazy", "ops": ops,
                "cfg": {"threads": threads, "fgated": fgated, "fbase": rng.choice([100, 0, -50, 7000]), "ngates": 1}}

    def gen(self, rng, tier, scale):
        n = int((120 if tier == "quick" else 2000) * scale)
        return [self.gen_one(rng) for _ in range(n)]

    def coq_case(self, case, obs):
        cfg = case["cfg"]
        ths = ["(%s, %d)" % (optnat(th.get("gate", -1)), int(th.get("calls", 1))) for th in cfg["threads"]]
        evs = []
        for e in obs["obs"]:
            k = e[0]
            if k == "spawn":
                evs.append("LSpawn %d" % e[1])
            elif k == "release":
                evs.append("LRelease %d" % e[1])
            elif k == "release-f":
                evs.append("LReleaseF")
            elif k == "quiesce":
                if e[1]:
                    evs.append("LQuiesce")
            elif k == "call-lazy":
                evs.append("LCallLazy %d" % e[1])
            elif k == "ret-lazy":
                evs.append("LRetLazy %d %s%%Z" % (e[1], z(e[2])))
            elif k == "f-enter":
                # a caller the harness cannot identify (-1) is printed as an out-of-range thread: rejected
                evs.append("LFEnter %d %d" % (e[1] if e[1] >= 0 else 10 ** 6, e[2]))
            elif k == "f-exit":
                evs.append("LFExit %d %s%%Z" % (e[1] if e[1] >= 0 else 10 ** 6, z(e[2])))
        return "([%s], %s, %s%%Z, %d, [%s])" % ("; ".join(ths), cb(cfg.get("fgated")), z(cfg.get("fbase", 100)),
                                               int(cfg.get("ngates", 1)), "; ".join(evs))

    def oracle(self, case, obs):
        if not quiescent(obs):
            return []
        evs = obs["obs"]
        fails = []
        enters = [i for i, e in enumerate(evs) if e[0] == "f-enter"]
        exits = [(i, e[2]) for i, e in enumerate(evs) if e[0] == "f-exit"]
        if len(enters) > 1 or obs.get("aux", {}).get("f_count", 0) > 1:
            fails.append(("f-ran-twice", "f was entered %d times (events %r)" % (max(len(enters), obs.get("aux", {}).get("f_count", 0)), enters)))
        pending = {}
        for i, e in enumerate(evs):
            if e[0] == "call-lazy":
                pending[e[1]] = i
            elif e[0] == "ret-lazy":
                pending.pop(e[1], None)
                if not exits or exits[0][0] > i:
                    fails.append(("returned-before-f-completed", "event %d: the lazy value was returned (%r) before f had completed" % (i, e[2])))
                elif e[2] != exits[0][1]:
                    fails.append(("wrong-result", "event %d: caller got %r but f returned %r" % (i, e[2], exits[0][1])))
        if pending:
            if exits:
                fails.append(("caller-stuck", "callers %r still blocked at quiescence although f has returned" % sorted(pending)))
            elif not enters:
                fails.append(("f-never-ran", "callers %r are blocked at quiescence but f was never entered" % sorted(pending)))
            elif not case["cfg"].get("fgated") or any(e[0] == "release-f" for e in evs):
                fails.append(("f-stuck", "f was entered and is free to return but has not, callers %r blocked" % sorted(pending)))
        return fails

    def stats(self, case, obs, acc):
        evs = obs["obs"]
        count_dist(acc, "threads", len(case["cfg"]["threads"]))
        ent = next((i for i, e in enumerate(evs) if e[0] == "f-enter"), None)
        ext = next((i for i, e in enumerate(evs) if e[0] == "f-exit"), None)
        for i, e in enumerate(evs):
            if e[0] == "call-lazy":
                w = "before-f" if ent is None or i < ent else ("while-f-runs" if ext is None or i < ext else "after-f")
                count_dist(acc, "caller_started", w)
        acc["inconclusive_no_quiescence"] = acc.get("inconclusive_no_quiescence", 0) + (0 if quiescent(obs) else 1)
        acc["events_total"] = acc.get("events_total", 0) + len(evs)

    def nontrivial(self, case, obs):
        return sum(1 for e in obs["obs"] if e[0] == "call-lazy") >= 2


# ====================================================================== xsync.Map vs sync.Map

class XMapSpec(SeqSpec):
    component = "xmap"
    imports = "From Juniper Require Import Common.Base XSyncMap.Model XSyncMap.Corr."
    preamble = ""
    checkers = {"M": "check_M"}

    OPS = ["load", "store", "loadorstore", "loadanddelete", "delete", "swap", "cas", "cad", "range"]

    def gen_one(self, rng, kind, n):
        ops = []
        keys = [1, 2, 3] if rng.random() < 0.8 else [5, -7, 0, 11]
        vals = [0, 0, 1, 2, 3]
        for _ in range(n):
            o = rng.choice(self.OPS)
            k = rng.choice(keys)
            if o in ("load", "loadanddelete", "delete"):
                ops.append([o, k])
            elif o in ("store", "loadorstore", "swap", "cad"):
                ops.append([o, k, rng.choice(vals)])
            elif o == "cas":
                ops.append([o, k, rng.choice(vals), rng.choice(vals)])
            else:
                ops.append([o])
        return {"component": "xmap", "ops": ops, "cfg": {"vkind": kind}}

    def gen(self, rng, tier, scale):
        cases = []
        # every method on an absent key, on a present key, and on a key holding the zero value / nil
        for kind in ("int", "error"):
            for o in self.OPS:
                for pre in ([], [["store", 1, 2]], [["store", 1, 0]], [["store", 1, 2], ["delete", 1]]):
                    if o in ("load", "loadanddelete", "delete"):
                        tests = [[o, 1]]
                    elif o in ("store", "loadorstore", "swap", "cad"):
                        tests = [[o, 1, v] for v in (0, 2, 3)]
                    elif o == "cas":
                        tests = [[o, 1, a, b] for a in (0, 2, 3) for b in (0, 3)]
                    else:
                        tests = [[o]]
                    for tst in tests:
                        cases.append({"component": "xmap", "ops": pre + [tst, ["load", 1], ["range"]], "cfg": {"vkind": kind}})
        n = int((300 if tier == "quick" else 6000) * scale)
        for i in range(n):
            cases.append(self.gen_one(rng, "error" if i % 2 else "int", rng.choice([4, 8, 12, 20, 30])))
        return cases

    @staticmethod
    def coq_any(v):
        return "ANil" if v is None else "(AVal %s)" % z(v)

    def coq_out(self, op, r):
        if r == "panic" or not isinstance(r, list):
            return "ObsPanic"
        o = op[0]
        if o in ("store", "delete"):
            return "(ObsOut OUnit)"
        if o in ("load", "loadorstore", "loadanddelete", "swap"):
            return "(ObsOut (OValB %s %s))" % (self.coq_any(r[0]), cb(r[1]))
        if o in ("cas", "cad"):
            return "(ObsOut (OBool %s))" % cb(r[0])
        return "(ObsOut (OPairs [%s]))" % "; ".join("(%s, %s)" % (z(p[0]), self.coq_any(p[1])) for p in r)

    def coq_case(self, case, obs):
        is_err = case["cfg"]["vkind"] == "error"
        ops = []
        for op in case["ops"]:
            o = op[0]
            a = [z(x) for x in op[1:]]
            name = {"load": "OpLoad", "store": "OpStore", "loadorstore": "OpLoadOrStore", "loadanddelete": "OpLoadAndDelete",
                    "delete": "OpDelete", "swap": "OpSwap", "cas": "OpCAS", "cad": "OpCAD", "range": "OpRange"}[o]
            ops.append(("%s %s" % (name, " ".join(a))).strip())
        outs = []
        for op, r in zip(case["ops"], obs["obs"]):
            xs, rw = r
            outs.append("(%s, %s)" % (self.coq_out(op, xs), self.coq_out(op, rw)))
        return "(%s, [%s], [%s])" % (cb(is_err), "; ".join(ops), "; ".join(outs))

    def oracle(self, case, obs):
        fails = []
        is_err = case["cfg"]["vkind"] == "error"

        def proj(v):
            return v if (is_err or v is not None) else 0

        for i, (op, r) in enumerate(zip(case["ops"], obs["obs"])):
            xs, rw = r
            if xs == "panic":
                fails.append(("panic-absent-or-nil", "op %d %r: xsync.Map[int,%s] panicked where sync.Map returned %r" % (i, op, case["cfg"]["vkind"], rw)))
                break
            if rw == "panic" or not isinstance(xs, list) or not isinstance(rw, list):
                fails.append(("harness", "op %d %r: unexpected result %r / %r" % (i, op, xs, rw)))
                break
            o = op[0]
            if o in ("load", "loadorstore", "loadanddelete", "swap"):
                want = [proj(rw[0]), rw[1]]
            elif o == "range":
                want = [[p[0], proj(p[1])] for p in rw]
            else:
                want = rw
            if xs != want:
                fails.append(("typed-differs-from-syncmap", "op %d %r: xsync.Map returned %r, sync.Map returned %r (projected: %r)" % (i, op, xs, rw, want)))
                break
        return fails

    def stats(self, case, obs, acc):
        count_dist(acc, "vkind", case["cfg"]["vkind"])
        present = set()
        for op, r in zip(case["ops"], obs["obs"]):
            if len(op) > 1:
                count_dist(acc, "op/" + op[0], "present" if op[1] in present else "absent")
            rw = r[1]
            # track presence from the sync.Map side
            o = op[0]
            if o in ("store", "swap"):
                present.add(op[1])
            elif o == "loadorstore":
                present.add(op[1])
            elif o in ("delete", "loadanddelete"):
                present.discard(op[1])
            elif o == "cad" and isinstance(rw, list) and rw and rw[0]:
                present.discard(op[1])
        acc["ops_total"] = acc.get("ops_total", 0) + len(case["ops"])

    def nontrivial(self, case, obs):
        return len(case["ops"]) >= 3


CONC_SPECS = [WatchSpec, FutureSpec, LazySpec]
