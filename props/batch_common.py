"""C11 — stream.Batch / stream.BatchFunc: scenario generator, Coq printing, direct oracle.

A scenario is a controller script (see harness_batch/batch.go). The recorded history is (a) given
to the LTS model of coq/theories/Conc/Batch.v (`accepts_history`: some schedule of the model
produces exactly these events and every quiescence point is a model state with nothing enabled and
no timer running) and (b) judged directly by `oracle`, which evaluates the clauses of the property
on the events and their timestamps without any reference to the model.
"""
from vlib import SeqSpec

MODEL_MAXWAIT = 10     # logical clock units used by the model for maxWait (the matcher abstracts time)


def znum(n):
    n = int(n)
    return str(n) if n >= 0 else "(%d)" % n


def zl(l):
    return "[" + "; ".join(znum(x) for x in l) + "]"


class BatchSpec(SeqSpec):
    ctx_zoo = True      # contexts come from the zoo (cause / DeadlineExceeded / plain), see vlib.apply_ctx_zoo
    component = "batch"
    imports = "From Juniper Require Import Common.Base Conc.GoLTS Conc.Batch.\nFrom Juniper Require Conc.BatchMatcher."
    # a rejection counts only when certified genuine (BatchMatcher.batch_reject_genuine: closures converged within the fuel)
    preamble = ("Definition chk (c : Z * fmode * list nat * nat * list lab) : bool :=\n"
                "  let '(mw, m, calls, n, evs) := c in accepts_history mw m calls n evs || negb (BatchMatcher.batch_converged mw m calls n evs).\n"
                "Definition chk_conv (c : Z * fmode * list nat * nat * list lab) : bool :=\n"
                "  let '(mw, m, calls, n, evs) := c in BatchMatcher.batch_converged mw m calls n evs.")
    checkers = {"M": "chk", "converged": "chk_conv"}
    informational = {"converged"}

    # ------------------------------------------------------------------ generator
    @staticmethod
    def _cfg(rng, mode=None, size=None, gated=None):
        mode = mode or rng.choice(["batch", "batch", "func", "func"])
        cfg = {"mode": mode, "size": size if size is not None else rng.choice([1, 2, 2, 3, 4]),
               # maxWait: mostly 25 ms; also 0 and negative durations (e.g. time.Until(a deadline that has passed)):
               # every item has then waited "at least maxWait", a waiting consumer must get an underfilled batch at once
               "maxwait_ms": rng.choice([25, 25, 25, 25, 5, 0, -1, -3600000]), "margin_ms": 15}
        if mode == "func":
            cfg["gated"] = (rng.random() < 0.5) if gated is None else gated
        return cfg

    def gen_random(self, rng):
        cfg = self._cfg(rng)
        gated = cfg.get("gated", False)
        nitems = rng.choice([0, 1, 2, 3, 3, 4, 5, 6])
        ending = rng.choice(["end", "end", "err", "none"])
        ncons = rng.choice([0, 1, 2, 2, 3, 4])
        do_close = rng.random() < 0.5
        sequential = rng.random() < 0.6      # start a consumer only after a quiescence point
        ops = []
        item = 1
        k = 0
        started = []
        pending = []
        cancelled = set()
        ended = False
        closed = False
        ftok = 0
        if gated and rng.random() < 0.4:     # tokens released up front: full() has no latency
            for _ in range(nitems):
                ops.append(["release-full"])
                ftok += 1
        budget = 40
        while budget > 0:
            budget -= 1
            acts = []
            if item <= nitems and not ended:
                acts += ["item"] * 4
            if item > nitems and not ended and ending != "none":
                acts += ["ending"] * 3
            if k < ncons:
                acts += ["next"] * 3
            if [c for c in started if c not in cancelled]:
                acts += ["cancel"]
            if gated and ftok < nitems:
                acts += ["full"] * 3
            if do_close and not closed:
                acts += ["close"]
            if rng.random() < 0.15:
                acts += ["sleep"]
            if not acts:
                break
            a = rng.choice(acts)
            if a == "item":
                for _ in range(rng.choice([1, 1, 1, 2, 3])):
                    if item <= nitems:
                        ops.append(["release", "item", item])
                        item += 1
            elif a == "ending":
                ops.append(["release", "end"] if ending == "end" else ["release", "err", 7])
                ended = True
            elif a == "next":
                # at most 1 (sequential) or 2 consumer calls can be pending at a time: the state space of
                # the matcher is the product over the pending calls; older ones are expired first
                while len(pending) >= (1 if sequential else 2):
                    c = pending.pop(0)
                    if c not in cancelled:
                        ops.append(["cancel", c])
                        cancelled.add(c)
                    ops.append(["quiesce"])
                if sequential and ops and ops[-1] != ["quiesce"]:
                    ops.append(["quiesce"])
                ops.append(["next", k, k])
                started.append(k)
                pending.append(k)
                k += 1
            elif a == "cancel":
                c = rng.choice([c for c in started if c not in cancelled])
                ops.append(["cancel", c])
                cancelled.add(c)
            elif a == "full":
                ops.append(["release-full"])
                ftok += 1
            elif a == "close":
                ops.append(["close"])
                closed = True
            elif a == "sleep":
                ops.append(["sleep"])
            if rng.random() < 0.45:
                ops.append(["quiesce"])
        while gated and ftok < nitems:
            ops.append(["release-full"])
            ftok += 1
        return cfg, ops

    def gen_hang(self, rng):
        """Close while the producer holds an undelivered item: batch full, no consumer (the historical hang)."""
        size = rng.choice([1, 1, 2, 3])
        cfg = self._cfg(rng, mode=rng.choice(["batch", "batch", "func"]), size=size, gated=False)
        ops = [["release", "item", i + 1] for i in range(size + rng.choice([1, 1, 2]))]
        if rng.random() < 0.7:
            ops.append(["quiesce"])
        if rng.random() < 0.3:
            ops += [["next", 0, 0], ["quiesce"]]
        ops += [["close"], ["quiesce"]]
        if rng.random() < 0.4:
            ops += [["next", 1, 1], ["quiesce"]]
        return cfg, ops

    def gen_read_all(self, rng):
        """Sequential consumers read to the end (or to the error); items singly and in bursts."""
        cfg = self._cfg(rng, gated=False)
        n = rng.choice([1, 2, 3, 4, 5, 6])
        ops = []
        item = 1
        k = 0
        ending = rng.choice(["end", "end", "err"])
        pre = rng.random() < 0.5          # source ahead of the consumers, or consumers waiting first
        if pre:
            while item <= n:
                ops.append(["release", "item", item])
                item += 1
            ops.append(["release", "end"] if ending == "end" else ["release", "err", 9])
            if rng.random() < 0.5:
                ops.append(["quiesce"])
        for _ in range(n + 2):
            ops.append(["next", k, k])
            k += 1
            if not pre and item <= n:
                for _ in range(rng.choice([1, 1, 2])):
                    if item <= n:
                        ops.append(["release", "item", item])
                        item += 1
                if item > n:
                    ops.append(["release", "end"] if ending == "end" else ["release", "err", 9])
            ops.append(["quiesce"])
        if rng.random() < 0.5:
            ops += [["close"], ["quiesce"]]
        return cfg, ops

    def gen_waiters(self, rng):
        """Several successive waiters with expiring contexts around an underfilled batch."""
        cfg = self._cfg(rng, size=rng.choice([3, 4, 5]), gated=False)
        ops = []
        k = 0
        item = 1
        for _ in range(rng.choice([1, 2, 3])):
            ops.append(["next", k, k])
            if rng.random() < 0.6:
                ops.append(["quiesce"])
            if rng.random() < 0.5:
                ops.append(["release", "item", item])
                item += 1
                if rng.random() < 0.5:
                    ops.append(["cancel", k])     # expires while the timer is running
                    ops.append(["quiesce"])
                else:
                    ops.append(["quiesce"])       # the timer fires: the waiter gets the underfilled batch
            else:
                ops.append(["cancel", k])
                ops.append(["quiesce"])
            k += 1
        ops.append(["release", "item", item])
        item += 1
        if rng.random() < 0.5:
            ops.append(["sleep"])                 # older than maxWait when the next consumer arrives
        ops += [["next", k, k], ["quiesce"]]
        k += 1
        if rng.random() < 0.5:
            ops += [["release", "end"], ["next", k, k], ["quiesce"]]
        return cfg, ops

    def gen_full_latency(self, rng):
        """BatchFunc with a slow full(): the timer expires and a new consumer arrives while the
        batcher is inside the callback; afterwards further consumers and items."""
        cfg = self._cfg(rng, mode="func", size=5, gated=True)
        ops = [["next", 0, 0], ["quiesce"], ["release-full"], ["release", "item", 1], ["release", "item", 2],
               ["cancel", 0], ["sleep"], ["next", 1, 1], ["quiesce"], ["release-full"], ["quiesce"]]
        r = rng.random()
        if r < 0.4:
            ops += [["next", 2, 2], ["quiesce"]]
        elif r < 0.6:
            ops += [["release-full"], ["release", "item", 3], ["quiesce"], ["next", 2, 2], ["quiesce"]]
        else:
            # the producer already holds item 3 when full() returns: the select sees c, timerC and waiting ready
            # and the next consumer arrives at once, so a batch flushed by a stale timer is seen young
            ops = ops[:-2] + [["release", "item", 3], ["release-full"], ["release-full"],
                              ["next", 2, 2], ["quiesce"]]
        if rng.random() < 0.5:
            ops += [["close"], ["quiesce"]]
        return cfg, ops

    def gen_close_points(self, rng):
        """Close at a chosen moment: consumer waiting, producer ahead, batch in hand-off, after the end."""
        size = rng.choice([1, 2, 3])
        cfg = self._cfg(rng, size=size, gated=False)
        ops = []
        if rng.random() < 0.5:
            ops += [["next", 0, 0]]
            if rng.random() < 0.5:
                ops.append(["quiesce"])
        n = rng.choice([0, 1, size, size + 1, 2 * size + 1])
        for i in range(n):
            ops.append(["release", "item", i + 1])
        if rng.random() < 0.3:
            ops.append(["release", "end"])
        if rng.random() < 0.5:
            ops.append(["quiesce"])
        ops.append(["close"])
        if rng.random() < 0.5:
            ops.append(["release", "item", n + 1])
        ops.append(["quiesce"])
        ops += [["next", 1, 1], ["quiesce"]]
        return cfg, ops

    def gen_keep_and_append(self, rng):
        """The consumer keeps the batches it received and appends to them (the harness does, before every later Next)
        while the batcher collects the following items: batches whose length leaves spare capacity behind them
        (3, 5, 6, 7 items grown by append) must not share that capacity with the next batch."""
        size = rng.choice([3, 5, 6, 7, 3, 5])
        cfg = self._cfg(rng, mode=rng.choice(["batch", "func"]), size=size, gated=False)
        cfg["maxwait_ms"] = 25
        ops = []
        item = 1
        k = 0
        for rnd in range(rng.choice([2, 3])):
            n = size if rng.random() < 0.7 else rng.randrange(1, size)
            for _ in range(n):
                ops.append(["release", "item", item])
                item += 1
            ops.append(["quiesce"])
            if n < size:
                ops.append(["sleep"])
            ops += [["next", k, k], ["quiesce"]]
            k += 1
        ops += [["release", "end"], ["next", k, k], ["quiesce"], ["next", k + 1, k + 1], ["quiesce"]]
        return cfg, ops

    def gen(self, rng, tier, scale):
        n = int((150 if tier == "quick" else 2500) * scale)
        fams = [self.gen_random, self.gen_random, self.gen_random, self.gen_hang, self.gen_read_all,
                self.gen_waiters, self.gen_full_latency, self.gen_close_points, self.gen_keep_and_append]
        cases = []
        for i in range(n):
            f = fams[i % len(fams)]
            cfg, ops = f(rng)
            cases.append({"component": "batch", "cfg": cfg, "ops": ops, "family": f.__name__})
        return cases

    # ------------------------------------------------------------------ Coq printing
    @staticmethod
    def calls_of(case):
        calls = {}
        nctx = 1
        for op in case["ops"]:
            if op[0] == "next":
                calls[op[1]] = op[2]
                nctx = max(nctx, op[2] + 1)
            elif op[0] == "cancel":
                nctx = max(nctx, op[1] + 1)
        n = (max(calls) + 1) if calls else 0
        return [calls.get(k, 0) for k in range(n)], nctx

    def coq_case(self, case, obs):
        cfg = case["cfg"]
        calls, nctx = self.calls_of(case)
        if cfg.get("mode") == "func":
            mode = "FFunc %s" % ("true" if cfg.get("gated") else "false")
        else:
            mode = "FBatch %s" % znum(cfg.get("size", 1))
        evs = []
        for e in obs["obs"]:
            k = e[0]
            if k == "release":
                if e[1] == "item":
                    evs.append("LRelease (KItem %s)" % znum(e[2]))
                elif e[1] == "end":
                    evs.append("LRelease KEnd")
                else:
                    evs.append("LRelease (KErr %s)" % znum(e[2]))
            elif k == "release-full":
                evs.append("LReleaseFull")
            elif k == "src-next-enter":
                evs.append("LSrcNextEnter")
            elif k == "src-next-exit":
                if e[1] == "item":
                    evs.append("LSrcNextExit (RItem %s)" % znum(e[2]))
                elif e[1] == "end":
                    evs.append("LSrcNextExit REnd")
                elif e[1] == "err":
                    evs.append("LSrcNextExit (RErr %s)" % znum(e[2]))
                else:
                    evs.append("LSrcNextExit RCanceled")
            elif k == "src-close":
                evs.append("LSrcClose")
            elif k == "full-enter":
                evs.append("LFullEnter %s" % zl(e[1]))
            elif k == "full-exit":
                evs.append("LFullExit %s" % ("true" if e[1] else "false"))
            elif k == "call-next":
                evs.append("LCallNext %d%%nat" % e[1])
            elif k == "ret-next":
                if e[2] == "batch":
                    r = "(CBatch %s)" % zl(e[3])
                elif e[2] == "end":
                    r = "CEnd"
                elif e[2] == "ctx":
                    r = "CCtx"
                else:
                    r = "(CErr %s)" % znum(e[3])
                evs.append("LRetNext %d%%nat %s" % (e[1], r))
            elif k == "cancel":
                evs.append("LCancel %d%%nat" % e[1])
            elif k == "call-close":
                evs.append("LCallClose")
            elif k == "ret-close":
                evs.append("LRetClose")
            elif k == "quiesce":
                if e[1]:
                    evs.append("LQuiesce")
        return "(%d, %s, %s, %d%%nat, [%s])" % (MODEL_MAXWAIT, mode, ("[" + "; ".join("%d%%nat" % c for c in calls) + "]") if calls else "(@nil nat)", nctx,
                                                   "; ".join(evs))

    # ------------------------------------------------------------------ direct oracle
    def oracle(self, case, obs):
        """The clauses of C11 evaluated on the recorded history and its timestamps."""
        aux = obs.get("aux", {})
        if not aux.get("quiescent", True):
            return []     # inconclusive run (no structural quiescence within the time limit)
        evs = obs["obs"]
        ts = aux.get("ts_ns") or [0] * len(evs)
        maxwait = aux.get("maxwait_ns", 0)
        cfg = case["cfg"]
        size = cfg.get("size", 1)
        fails = []
        cancelled_ever = {op[1] for op in case["ops"] if op[0] == "cancel"}
        ctx_of = {op[1]: op[2] for op in case["ops"] if op[0] == "next"}

        src_items = []          # values returned by the source, in order
        item_ts = {}            # value -> timestamp of the source's return
        src_end_idx = None      # index of the source's End / error / ctx-error return
        src_err = None
        close_idx = None
        ret_close_idx = None
        src_close_idx = []
        call_idx, ret_idx, ret = {}, {}, {}
        full_enter = full_exit = 0
        for i, e in enumerate(evs):
            k = e[0]
            if k == "src-next-exit":
                if e[1] == "item":
                    src_items.append(e[2])
                    item_ts[e[2]] = ts[i]
                else:
                    if src_end_idx is None:
                        src_end_idx = i
                    if e[1] == "err":
                        src_err = e[2]
            elif k == "src-next-enter":
                if ret_close_idx is not None:
                    fails.append(("source-next-after-close-returned", "event %d: the source's Next is called after Close returned" % i))
                if src_close_idx:
                    fails.append(("source-used-after-its-close", "event %d: the source's Next is called after the source was closed" % i))
            elif k == "src-close":
                src_close_idx.append(i)
            elif k == "call-close":
                close_idx = i
            elif k == "ret-close":
                ret_close_idx = i
            elif k == "call-next":
                call_idx[e[1]] = i
            elif k == "ret-next":
                ret_idx[e[1]] = i
                ret[e[1]] = e
            elif k == "full-enter":
                full_enter += 1
            elif k == "full-exit":
                full_exit += 1
        pos = {v: j for j, v in enumerate(src_items)}
        if len(pos) != len(src_items):
            return []     # the scenario itself repeated a value (never generated)

        # --- sizes, partition
        batches = [(k, ret[k][3], ret_idx[k]) for k in ret if ret[k][2] == "batch"]
        batches.sort(key=lambda t: t[2])
        for k, b, i in batches:
            if len(b) == 0:
                fails.append(("empty-batch", "event %d: Next call %d returned an empty batch (scheduling-dependent when caused by a stale timer: the batcher's select picks among its ready arms at random; repeat the replay)" % (i, k)))
            if size >= 1 and len(b) > size:
                fails.append(("oversize-batch", "event %d: Next call %d returned %d items, batchSize is %d" % (i, k, len(b), size)))
        nonempty = [(k, b, i) for k, b, i in batches if b]
        unknown = [x for k, b, i in nonempty for x in b if x not in pos]
        if unknown:
            fails.append(("invented-item", "batches contain values the source never returned: %r" % unknown[:5]))
        else:
            by_pos = sorted(nonempty, key=lambda t: pos[t[1][0]])
            flat = [x for k, b, i in by_pos for x in b]
            if flat != src_items[:len(flat)]:
                fails.append(("not-a-partition", "the delivered batches %r are not consecutive segments of the source sequence %r (lost, duplicated or reordered item)"
                              % ([b for k, b, i in by_pos], src_items)))
            else:
                for a in range(len(nonempty)):
                    for c in range(a + 1, len(nonempty)):
                        ka, ba, ia = nonempty[a]
                        kc, bc, ic = nonempty[c]
                        if ia < call_idx.get(kc, -1) and pos[ba[0]] > pos[bc[0]]:
                            fails.append(("batches-out-of-order", "call %d returned %r before call %d started, which then returned the earlier items %r" % (ka, ba, kc, bc)))
            # read to the end: a consumer saw End / the error while Close had not been called
            for k, e in ret.items():
                if e[2] in ("end", "err") and (close_idx is None or ret_idx[k] < close_idx):
                    if flat != src_items:
                        fails.append(("items-lost-at-end", "Next call %d returned %s but the delivered batches %r do not cover the source sequence %r"
                                      % (k, e[2], [b for _, b, _ in by_pos], src_items)))
                    break

        # --- error position and identity, context errors
        for k, e in ret.items():
            i = ret_idx[k]
            closed_before = close_idx is not None and close_idx < i
            if e[2] == "err":
                if src_err is None or e[3] != src_err:
                    fails.append(("spurious-error", "event %d: Next call %d returned error %r, the source's error is %r" % (i, k, e[3], src_err)))
            elif e[2] == "end":
                if src_err is not None and not closed_before:
                    fails.append(("error-swallowed", "event %d: Next call %d returned End although the source failed with error %r" % (i, k, src_err)))
                if src_end_idx is None and not closed_before:
                    fails.append(("early-end", "event %d: Next call %d returned End but the source has not ended and Close was not called" % (i, k)))
            elif e[2] == "ctx":
                if ctx_of.get(k) not in cancelled_ever:
                    fails.append(("spurious-ctx-error", "event %d: Next call %d returned a context error but its context was never cancelled" % (i, k)))

        # --- maxWait, one-sided: an underfilled batch handed out before the source ended
        for k, b, i in nonempty:
            if len(b) >= size or unknown:
                continue
            if src_end_idx is not None and src_end_idx < i:
                continue
            if close_idx is not None and close_idx < i:
                continue
            waited = ts[i] - item_ts[b[0]]
            if waited < maxwait:
                fails.append(("underfilled-before-maxwait", "event %d: Next call %d got the underfilled batch %r (batchSize %d) %.3f ms after its oldest item left the source; maxWait is %.3f ms and the source had not ended"
                              % (i, k, b, size, waited / 1e6, maxwait / 1e6)))

        # --- Close returns, the source is closed exactly once, nothing runs afterwards
        if close_idx is not None and ret_close_idx is None:
            fails.append(("close-hangs", "Close was called (event %d) and has not returned at quiescence" % close_idx))
        if len(src_close_idx) > 1:
            fails.append(("source-closed-twice", "the source was closed %d times" % len(src_close_idx)))
        if ret_close_idx is not None and len([i for i in src_close_idx if i < ret_close_idx]) != 1:
            fails.append(("source-not-closed-before-close-returns", "Close returned (event %d) but the source had been closed %d times before"
                          % (ret_close_idx, len([i for i in src_close_idx if i < ret_close_idx]))))
        if src_end_idx is not None and not src_close_idx:
            fails.append(("source-not-closed-after-end", "the source's Next returned End/an error (event %d) but the source is not closed at quiescence" % src_end_idx))
        if aux.get("src_overlap"):
            fails.append(("source-calls-overlap", "two calls into the source (Next/Next or Next/Close) overlapped"))

        # --- liveness at the final quiescence point (all goroutines blocked, no timer pending)
        pending = [k for k in call_idx if k not in ret_idx]
        live_pending = [k for k in pending if ctx_of.get(k) not in cancelled_ever]
        late = [k for k in pending if ctx_of.get(k) in cancelled_ever]
        if late:
            fails.append(("ctx-not-prompt", "Next calls %r: context cancelled but the call has not returned at quiescence" % late))
        if full_enter == full_exit:          # the user's full() is not holding the batcher
            if live_pending and (src_end_idx is not None or ret_close_idx is not None):
                fails.append(("next-stuck-after-end", "Next calls %r are still blocked at quiescence although the source has ended or Close has returned" % live_pending))
            elif len(live_pending) == 1 and close_idx is None and not unknown:
                k = live_pending[0]
                others_done = all(ret_idx.get(j, 1 << 60) < call_idx[k] for j in call_idx if j != k)
                delivered = {x for _, b, _ in nonempty for x in b}
                held = [x for x in src_items if x not in delivered]
                if others_done and held:
                    fails.append(("held-back", "Next call %d (live context, the only consumer) is still blocked at quiescence (no timer pending) while items %r that left the source are undelivered" % (k, held)))
        return fails

    # ------------------------------------------------------------------ statistics
    def stats(self, case, obs, acc):
        d = acc.setdefault("scenarios", {"family": {}, "mode": {}, "consumers": {}, "items": {}, "close": {}, "cancels": {}})
        ops = case["ops"]
        cfg = case["cfg"]
        m = cfg["mode"] + ("-gated" if cfg.get("gated") else "") + "/size%d" % cfg.get("size", 1)

        def bump(key, v):
            d[key][str(v)] = d[key].get(str(v), 0) + 1
        bump("family", case.get("family", "corpus"))
        bump("mode", m)
        bump("consumers", sum(1 for o in ops if o[0] == "next"))
        bump("items", sum(1 for o in ops if o[0] == "release" and o[1] == "item"))
        bump("close", sum(1 for o in ops if o[0] == "close"))
        bump("cancels", sum(1 for o in ops if o[0] == "cancel"))
        r = acc.setdefault("results", {"batch": 0, "underfilled_timed": 0, "end": 0, "err": 0, "ctx": 0, "close_returned": 0,
                                       "close_with_item_in_hand": 0})
        size = cfg.get("size", 1)
        seen_end = False
        items_out = 0
        delivered = 0
        for e in obs["obs"]:
            if e[0] == "src-next-exit":
                if e[1] == "item":
                    items_out += 1
                else:
                    seen_end = True
            elif e[0] == "ret-next":
                r[e[2]] = r.get(e[2], 0) + 1
                if e[2] == "batch":
                    delivered += len(e[3])
                    if len(e[3]) < size and not seen_end:
                        r["underfilled_timed"] += 1
            elif e[0] == "call-close":
                if items_out > delivered:
                    r["close_with_item_in_hand"] += 1
            elif e[0] == "ret-close":
                r["close_returned"] += 1
        acc["inconclusive_no_quiescence"] = acc.get("inconclusive_no_quiescence", 0) + (0 if obs.get("aux", {}).get("quiescent", True) else 1)
        acc["cleanup_leaks"] = acc.get("cleanup_leaks", 0) + (1 if obs.get("aux", {}).get("cleanup_leak") else 0)
        acc["events_total"] = acc.get("events_total", 0) + len(obs["obs"])

    def nontrivial(self, case, obs):
        ops = case["ops"]
        return (sum(1 for o in ops if o[0] == "release") >= 1
                and sum(1 for o in ops if o[0] in ("next", "close")) >= 1)
