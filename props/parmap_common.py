"""C14 — parallel.MapIterator / parallel.MapStream: scenario generators, Coq printing, direct oracles."""
from vlib import SeqSpec

BASE = 100


def fv(x):
    return x * 3 + 7


def eff_par(cfg):
    p = cfg.get("par", 1)
    return p if p > 0 else cfg.get("gomaxprocs", 1)


def prop_bound(cfg):
    """the property's bound: buffer size + parallelism + 1"""
    return max(cfg.get("buf", 0), 0) + eff_par(cfg) + 1


def norm_buf(cfg):
    return max(cfg.get("buf", 0), eff_par(cfg))


def blist(n, s):
    return "[" + "; ".join("true" if k in s else "false" for k in range(n)) + "]"


def zl(l):
    return "[" + "; ".join(str(x) if x >= 0 else "(%d)" % x for x in l) + "]"


def zz(x):
    return str(x) if x >= 0 else "(%d)" % x


def gen_params(rng):
    n = rng.choice([0, 1, 2, 3, 3, 4, 5, 6, 8, 10, 12])
    par = rng.choice([-1, 0, 1, 1, 2, 2, 3, 4])
    buf = rng.choice([-1, 0, 0, 1, 2, 2, 5])
    cfg = {"n": n, "par": par, "buf": buf}
    if par <= 0:
        cfg["gomaxprocs"] = rng.choice([1, 2, 3])
    return cfg


def latency_pattern(rng, n):
    """(gated items, release order): late items finish first to fill the re-order buffer"""
    kind = rng.choice(["none", "reverse", "reverse", "random", "head", "subset", "blocks"])
    if n == 0 or kind == "none":
        return kind, [], []
    if kind == "reverse":
        g = list(range(n))
        return kind, g, list(reversed(g))
    if kind == "random":
        g = list(range(n))
        o = g[:]
        rng.shuffle(o)
        return kind, g, o
    if kind == "head":
        return kind, [0], [0]
    if kind == "blocks":
        # reverse inside windows of size w: reordering up to the buffer limit
        w = rng.choice([2, 3, 4])
        g = list(range(n))
        o = []
        for i in range(0, n, w):
            o += list(reversed(g[i:i + w]))
        return kind, g, o
    g = sorted(rng.sample(range(n), rng.randint(1, n)))
    o = g[:]
    rng.shuffle(o)
    return kind, g, o


# ====================================================================== MapIterator

class MapIterSpec(SeqSpec):
    component = "mapiter"
    imports = "From Juniper Require Import Common.Base Conc.GoLTS Conc.ParMap.\nFrom Juniper Require Conc.ParMapMatcherComplete.\nImport MI."
    # rejections-certified (informational): every rejection is certified genuine by the convergence test (C14_iterator_matcher_exact)
    preamble = ("Definition chk (c : Z * Z * Z * list Z * list bool * list lab) : bool :=\n"
                "  let '(g, p, b, items, gated, evs) := c in accepts_history (fun x => x * 3 + 7) g p b items gated evs.\n"
                "Definition chk_cert (c : Z * Z * Z * list Z * list bool * list lab) : bool :=\n"
                "  let '(g, p, b, items, gated, evs) := c in accepts_history (fun x => x * 3 + 7) g p b items gated evs\n"
                "    || ParMapMatcherComplete.MIC.mi_converged (fun x => x * 3 + 7) g p b items gated evs.")
    checkers = {"M": "chk", "rejections-certified": "chk_cert"}
    informational = {"rejections-certified"}

    def gen_one(self, rng):
        cfg = gen_params(rng)
        n = cfg["n"]
        kind, gated, order = latency_pattern(rng, n)
        cfg["fgated"] = gated
        pace = rng.choice(["fast", "slow", "late", "mixed"])
        ops = []
        total_next = n + 1 + rng.choice([0, 0, 1])
        issued = 0
        if pace == "fast":
            for _ in range(total_next):
                ops.append(["next"])
            issued = total_next
        pend = order[:]
        while pend:
            k = pend.pop(0)
            ops.append(["relf", k])
            if pace in ("slow", "mixed") and issued < total_next and rng.random() < (0.8 if pace == "slow" else 0.4):
                ops.append(["next"])
                issued += 1
            if rng.random() < 0.35:
                ops.append(["quiesce"])
        if rng.random() < 0.5:
            ops.append(["quiesce"])
        while issued < total_next:
            ops.append(["next"])
            issued += 1
            if pace == "slow" and rng.random() < 0.3:
                ops.append(["quiesce"])
        cfg["_pattern"] = kind
        cfg["_pace"] = pace
        return {"component": "mapiter", "cfg": cfg, "ops": ops}

    def gen(self, rng, tier, scale):
        n = int((150 if tier == "quick" else 2500) * scale)
        return [self.gen_one(rng) for _ in range(n)]

    def coq_case(self, case, obs):
        cfg = case["cfg"]
        n = cfg["n"]
        evs = []
        for e in obs["obs"]:
            k = e[0]
            if k == "req-next":
                evs.append("LReqNext")
            elif k == "call-next":
                evs.append("LCallNext")
            elif k == "ret-next":
                evs.append("LRetNext (Some %s)" % zz(e[2]) if e[1] == "val" else "LRetNext None")
            elif k == "src-enter":
                evs.append("LSrcEnter")
            elif k == "src-exit":
                evs.append("LSrcExit (Some %d%%nat)" % e[1] if e[1] >= 0 else "LSrcExit None")
            elif k == "f-enter":
                evs.append("LFEnter 0 %d" % e[1])
            elif k == "f-exit":
                evs.append("LFExit 0 %d" % e[1])
            elif k == "relf":
                evs.append("LRelease %d" % e[1])
            elif k == "quiesce":
                if e[1]:
                    evs.append("LQuiesce")
        items = [BASE + k for k in range(n)]
        return "(%s, %s, %s, %s, %s, [%s])" % (zz(cfg.get("gomaxprocs", 1)), zz(cfg["par"]), zz(cfg["buf"]), zl(items),
                                                 blist(n, set(cfg.get("fgated", []))), "; ".join(evs))

    def oracle(self, case, obs):
        if not obs.get("aux", {}).get("quiescent", True):
            return []
        cfg = case["cfg"]
        n = cfg["n"]
        fails = []
        bound = prop_bound(cfg)
        pulled = yielded = 0
        inprog = 0
        ended = False
        fentered = set()
        fexited = set()
        released = set()
        gated = set(cfg.get("fgated", []))
        src_pending = False
        for i, e in enumerate(obs["obs"]):
            k = e[0]
            if k == "src-enter":
                src_pending = True
            elif k == "src-exit":
                src_pending = False
                if e[1] >= 0:
                    if e[1] != pulled:
                        fails.append(("harness-source-order", "event %d" % i))
                    pulled += 1
            elif k == "f-enter":
                if e[1] in fentered:
                    fails.append(("f-called-twice", "event %d: f called twice on item %d" % (i, e[1])))
                if e[1] >= pulled:
                    fails.append(("f-on-unpulled-item", "event %d: f called on item %d before the source returned it" % (i, e[1])))
                fentered.add(e[1])
            elif k == "f-exit":
                fexited.add(e[1])
            elif k == "relf":
                released.add(e[1])
            elif k == "call-next":
                inprog = 1
            elif k == "ret-next":
                inprog = 0
                if e[1] == "val":
                    if ended:
                        fails.append(("value-after-end", "event %d: Next returned a value after it had returned false" % i))
                    exp = fv(BASE + yielded)
                    if yielded >= n or e[2] != exp:
                        fails.append(("order-or-duplicate", "event %d: result #%d is %r, expected f(item %d) = %r (in order, exactly once)"
                                      % (i, yielded, e[2], yielded, exp if yielded < n else None)))
                    elif yielded not in fexited:
                        fails.append(("result-before-f-returned", "event %d: result for item %d before f returned" % (i, yielded)))
                    yielded += 1
                else:
                    ended = True
                    if yielded != n:
                        fails.append(("end-before-all-items", "event %d: Next returned false after %d of %d results" % (i, yielded, n)))
            if pulled - yielded > bound + inprog:
                fails.append(("inflight-bound", "event %d: %d items taken from the source, %d yielded: more than bufferSize+parallelism+1 = %d in flight"
                              % (i, pulled, yielded, bound)))
        held = [k for k in fentered - fexited if k in gated and k not in released]
        if inprog and not held:
            fails.append(("deadlock", "a Next call is still blocked at quiescence although no f call is held by the scenario "
                          "(taken=%d yielded=%d, f running on %r)" % (pulled, yielded, sorted(fentered - fexited))))
        if obs.get("aux", {}).get("cleanup_leak"):
            fails.append(("drain-stuck", "after releasing every gate, draining the iterator did not finish within 5 s"))
        elif obs.get("aux", {}).get("goroutines_left", 0) > 0:
            fails.append(("goroutine-leak", "%d goroutines left after the iterator was drained" % obs["aux"]["goroutines_left"]))
        return fails

    def stats(self, case, obs, acc):
        cfg = case["cfg"]
        d = acc.setdefault("scenarios", {"n": {}, "par": {}, "buf": {}, "pattern": {}, "pace": {}})
        for k, v in (("n", cfg["n"]), ("par", cfg["par"]), ("buf", cfg["buf"]), ("pattern", cfg.get("_pattern")), ("pace", cfg.get("_pace"))):
            d[k][str(v)] = d[k].get(str(v), 0) + 1
        # how far the re-order buffer was filled: max (taken - yielded) relative to the tight bound
        pulled = yielded = mx = 0
        for e in obs["obs"]:
            if e[0] == "src-exit" and e[1] >= 0:
                pulled += 1
            elif e[0] == "ret-next" and e[1] == "val":
                yielded += 1
            mx = max(mx, pulled - yielded)
        if cfg["n"] > norm_buf(cfg) and mx >= norm_buf(cfg) + 1:
            acc["reached_tight_bound"] = acc.get("reached_tight_bound", 0) + 1
        acc["inconclusive_no_quiescence"] = acc.get("inconclusive_no_quiescence", 0) + (0 if obs.get("aux", {}).get("quiescent", True) else 1)
        acc["events_total"] = acc.get("events_total", 0) + len(obs["obs"])

    def nontrivial(self, case, obs):
        return case["cfg"]["n"] >= 2 and sum(1 for o in case["ops"] if o[0] == "next") >= 2


# ====================================================================== MapStream

class MapStreamSpec(SeqSpec):
    component = "mapstream"
    imports = "From Juniper Require Import Common.Base Conc.GoLTS Conc.ParMap.\nFrom Juniper Require Conc.ParMapMatcher Conc.ParMapMatcherComplete.\nImport MS."
    # M: the matcher WITHOUT the channel-buffer sorting of MS.canon (ParMapMatcher.MSM.accepts_history_ws, proved sound:
    # ms_ws_accepts_sound). The originally shipped MS.accepts_history sorts the buffer of channel c, which is not a
    # symmetry of the model: it accepts a history no run produces (ms_accepts_sound_refuted) - too permissive, so it
    # is kept only as an informational cross-check.
    preamble = ("Definition chk (c : cfg * list lab) : bool :=\n"
                "  let '(cf, evs) := c in ParMapMatcher.MSM.accepts_history_ws (fun x => x * 3 + 7) cf evs.\n"
                "Definition chk_sorted (c : cfg * list lab) : bool :=\n"
                "  let '(cf, evs) := c in accepts_history (fun x => x * 3 + 7) cf evs.\n"
                "Definition chk_cert (c : cfg * list lab) : bool :=\n"
                "  let '(cf, evs) := c in ParMapMatcher.MSM.accepts_history_ws (fun x => x * 3 + 7) cf evs\n"
                "    || ParMapMatcherComplete.MSC.ms_ws_converged (fun x => x * 3 + 7) cf evs.")
    checkers = {"M": "chk", "sorted-buffer-matcher": "chk_sorted", "rejections-certified": "chk_cert"}
    informational = {"sorted-buffer-matcher", "rejections-certified"}
    # C08 looks at faults: most of its scenarios cancel per-call contexts / fail callbacks and sources
    fault_bias = False

    def __init__(self, fault_bias=False):
        self.fault_bias = fault_bias

    def gen_one(self, rng):
        while True:
            cfg = gen_params(rng)
            n = cfg["n"]
            kind, gated, order = latency_pattern(rng, n)
            # free-running workers (few gates) over many items make the history matcher explore very many
            # interleavings: keep those scenarios short
            if not (len(gated) <= 1 and cfg["par"] >= 3 and n > 6):
                break
        cfg["fgated"] = gated
        mode = rng.choice(["plain", "plain", "ferr", "ferr", "serr", "close", "close", "nextctx", "parent", "mix"])
        if self.fault_bias and mode in ("plain", "close"):
            # an expired per-call context while results are (or are not yet) buffered, then the consumer goes on
            mode = rng.choice(["nextctx", "nextctx", "mix", "ferr", "serr"])
        ferr = []
        if mode in ("ferr", "mix") and n > 0:
            ferr = sorted(rng.sample(range(n), min(n, rng.choice([1, 1, 2]))))
        cfg["ferr"] = ferr
        cfg["serr"] = mode == "serr" or (mode == "mix" and rng.random() < 0.3)
        # every other failing source fails through the library's own stream.Error(E): after its n items each Next is answered
        # by stream.Error(E).Next (n = 0: MapStream directly over stream.Error).  Derived from the case, no extra draw.
        cfg["errorstream"] = bool(cfg["serr"] and (n + cfg["par"]) % 2 == 0)
        sg = []
        if rng.random() < 0.35:
            sg = sorted(rng.sample(range(n + 1), rng.randint(1, min(n + 1, 3))))
        cfg["sgated"] = sg
        nctx = rng.choice([1, 2, 3])
        cfg["nctx"] = nctx
        pace = rng.choice(["fast", "slow", "late", "mixed"])
        ops = []
        total_next = n + 1 + rng.choice([0, 0, 1])
        close_after = None
        if mode in ("close", "mix") or rng.random() < 0.15:
            close_after = rng.randint(0, n + 1)     # Close after this many Next requests
        events = [("relf", k) for k in order] + [("rels", k) for k in sg]
        # keep the reversed/random f order but interleave source releases at random points
        fl = [x for x in events if x[0] == "relf"]
        sl = [x for x in events if x[0] == "rels"]
        sl.sort(key=lambda x: x[1])
        merged = []
        while fl or sl:
            if sl and (not fl or rng.random() < 0.4):
                merged.append(sl.pop(0))
            else:
                merged.append(fl.pop(0))
        cancels = []
        if mode in ("nextctx", "mix"):
            for j in range(nctx):
                if rng.random() < 0.6:
                    cancels.append(("cancel-next", j))
        if mode == "parent" or (mode == "mix" and rng.random() < 0.2):
            cancels.append(("cancel-parent",))
        for cz in cancels:
            merged.insert(rng.randint(0, len(merged)), cz)
        issued = 0
        closed = False

        def issue():
            nonlocal issued, closed
            if closed:
                return
            if close_after is not None and issued == close_after:
                ops.append(["close"])
                closed = True
                return
            ops.append(["next", rng.randrange(nctx)])
            issued += 1

        if pace == "fast":
            while issued < total_next and not closed:
                issue()
        for ev in merged:
            ops.append(list(ev))
            if pace in ("slow", "mixed") and issued < total_next and rng.random() < (0.8 if pace == "slow" else 0.4):
                issue()
            if rng.random() < 0.35:
                ops.append(["quiesce"])
        if rng.random() < 0.5:
            ops.append(["quiesce"])
        while issued < total_next and not closed:
            issue()
            if pace == "slow" and rng.random() < 0.3:
                ops.append(["quiesce"])
        if close_after is not None and not closed:
            ops.append(["close"])
        cfg["_pattern"] = kind
        cfg["_pace"] = pace
        cfg["_mode"] = mode
        if rng.random() < 0.3:
            cfg["slowclose_ms"] = 4       # the source's Close takes a while
        return {"component": "mapstream", "cfg": cfg, "ops": ops}

    def gen(self, rng, tier, scale):
        n = int((150 if tier == "quick" else 2500) * scale)
        return [self.gen_one(rng) for _ in range(n)]

    def coq_case(self, case, obs):
        cfg = case["cfg"]
        n = cfg["n"]
        evs = []
        for e in obs["obs"]:
            k = e[0]
            if k == "req-next":
                evs.append("LReq (RqNext %d)" % e[1])
            elif k == "req-close":
                evs.append("LReq RqClose")
            elif k == "call-next":
                evs.append("LCallNext %d" % e[1])
            elif k == "call-close":
                evs.append("LCallClose")
            elif k == "ret-close":
                evs.append("LRetClose")
            elif k == "ret-next":
                kind = e[1]
                if kind == "val":
                    r = "RVal %s" % zz(e[2])
                elif kind == "end":
                    r = "REnd"
                elif kind == "ferr":
                    r = "RErr (EF %d)" % e[2]
                elif kind == "serr":
                    r = "RErr ESrc"
                elif kind == "parent":
                    r = "RErr (ECtx ByParent)"
                elif kind == "canceled":
                    r = "RErr (ECtx ByClose)"
                elif kind == "nextctx":
                    r = "RCtx"
                else:
                    r = "RErr (EF 999999)"
                evs.append("LRetNext (%s)" % r)
            elif k == "src-enter":
                evs.append("LSrcEnter")
            elif k == "src-exit":
                evs.append({"item": "LSrcExit (SoItem %d)" % e[2], "end": "LSrcExit SoEnd", "err": "LSrcExit SoErr",
                            "ctx": "LSrcExit SoCtx"}[e[1]])
            elif k == "srcclose-enter":
                evs.append("LSrcCloseEnter")
            elif k == "srcclose-exit":
                evs.append("LSrcCloseExit")
            elif k == "f-enter":
                evs.append("LFEnter 0 %d" % e[1])
            elif k == "f-exit":
                evs.append("LFExit 0 %d %s" % (e[1], {"ok": "FoOk", "err": "FoErr", "ctx": "FoCtx"}[e[2]]))
            elif k == "relf":
                evs.append("LReleaseF %d" % e[1])
            elif k == "rels":
                evs.append("LReleaseS %d" % e[1])
            elif k == "cancel-parent":
                evs.append("LCancelParent")
            elif k == "cancel-next":
                evs.append("LCancelNext %d" % e[1])
            elif k == "quiesce":
                if e[1]:
                    evs.append("LQuiesce")
        items = [BASE + k for k in range(n)]
        c = "(mkCfg %s %s %s %s %s %s %s %s %d)" % (
            zz(cfg.get("gomaxprocs", 1)), zz(cfg["par"]), zz(cfg["buf"]), zl(items), blist(n, set(cfg.get("ferr", []))),
            "true" if cfg.get("serr") else "false", blist(n, set(cfg.get("fgated", []))),
            blist(n + 1, set(cfg.get("sgated", []))), cfg.get("nctx", 1))
        return "(%s, [%s])" % (c, "; ".join(evs))

    def oracle(self, case, obs):
        aux = obs.get("aux", {})
        if not aux.get("quiescent", True):
            return []
        cfg = case["cfg"]
        n = cfg["n"]
        fails = []
        bound = prop_bound(cfg)
        pulled = yielded = 0
        inprog = None            # context index of the Next call in progress
        closing = False
        close_called = False
        close_returned = False
        final = None             # the End / error the stream has reported
        fentered, fexited, ffailed = set(), set(), {}
        src_err = False
        src_pending = False
        parent_cancelled = False
        next_cancelled = set()
        srcclose = 0
        for i, e in enumerate(obs["obs"]):
            k = e[0]
            if k == "src-enter":
                src_pending = True
                if srcclose:
                    fails.append(("source-used-after-close", "event %d: source Next called after its Close" % i))
            elif k == "src-exit":
                src_pending = False
                if e[1] == "item":
                    pulled += 1
                elif e[1] == "err":
                    src_err = True
            elif k == "srcclose-enter":
                srcclose += 1
                if srcclose > 1:
                    fails.append(("source-closed-twice", "event %d: the source was closed %d times" % (i, srcclose)))
            elif k == "f-enter":
                if e[1] in fentered:
                    fails.append(("f-called-twice", "event %d: f called twice on item %d" % (i, e[1])))
                fentered.add(e[1])
            elif k == "f-exit":
                fexited.add(e[1])
                if e[2] != "ok":
                    ffailed[e[1]] = e[2]
            elif k == "cancel-parent":
                parent_cancelled = True
            elif k == "cancel-next":
                next_cancelled.add(e[1])
            elif k == "call-next":
                inprog = e[1]
            elif k == "call-close":
                closing = True
                close_called = True
            elif k == "ret-close":
                closing = False
                close_returned = True
                if srcclose != 1:
                    fails.append(("close-source-not-closed", "event %d: Close returned but the source was closed %d times" % (i, srcclose)))
                if src_pending or (fentered - fexited):
                    fails.append(("close-before-workers-stopped", "event %d: Close returned while up-calls are still running (source: %r, f on %r)"
                                  % (i, src_pending, sorted(fentered - fexited))))
            elif k == "ret-next":
                j = inprog
                inprog = None
                kind = e[1]
                if kind == "val":
                    if final is not None:
                        fails.append(("value-after-end-or-error", "event %d: Next returned a value after it had reported %s" % (i, final)))
                    exp = fv(BASE + yielded)
                    if yielded >= n or e[2] != exp:
                        fails.append(("order-or-duplicate", "event %d: result #%d is %r, expected f(item %d) (in order, exactly once)"
                                      % (i, yielded, e[2], yielded)))
                    elif yielded not in fexited or yielded in ffailed:
                        fails.append(("result-without-f", "event %d: result for item %d although f did not return a value for it" % (i, yielded)))
                    beyond = [q for q in ffailed if q <= yielded]
                    if beyond:
                        fails.append(("result-beyond-failed-item", "event %d: result #%d returned although f failed on item(s) %r" % (i, yielded, sorted(beyond))))
                    yielded += 1
                elif kind == "nextctx":
                    if j not in next_cancelled:
                        fails.append(("spurious-next-ctx-error", "event %d: Next returned its context's error but context %r was never cancelled" % (i, j)))
                elif kind == "end":
                    final = "End"
                    if yielded != n or cfg.get("serr") or ffailed:
                        fails.append(("end-before-all-items", "event %d: Next returned End after %d of %d results (source error configured: %r, failed f: %r)"
                                      % (i, yielded, n, cfg.get("serr"), sorted(ffailed))))
                elif kind == "ferr":
                    final = "an error"
                    if ffailed.get(e[2]) != "err":
                        fails.append(("error-not-returned-by-f", "event %d: Next reported the error of f(item %d) which f never returned" % (i, e[2])))
                    if yielded > e[2]:
                        fails.append(("error-after-later-results", "event %d: error of item %d after %d results" % (i, e[2], yielded)))
                elif kind == "serr":
                    final = "an error"
                    if not src_err:
                        fails.append(("error-not-returned-by-source", "event %d: Next reported the source's error which the source never returned" % i))
                elif kind == "parent":
                    final = "an error"
                    if not parent_cancelled:
                        fails.append(("spurious-parent-ctx-error", "event %d: Next reported the caller's context error but it was never cancelled" % i))
                elif kind == "canceled":
                    final = "an error"
                    fails.append(("self-inflicted-cancellation", "event %d: Next reported context.Canceled: a cancellation the library caused itself "
                                  "(Close had %sbeen called)" % (i, "" if close_called else "not ")))
                else:
                    final = "an error"
                    fails.append(("unknown-error", "event %d: Next reported an error nobody returned" % i))
            if pulled - yielded > bound + (1 if inprog is not None else 0):
                fails.append(("inflight-bound", "event %d: %d items taken from the source, %d yielded: more than bufferSize+parallelism+1 = %d in flight"
                              % (i, pulled, yielded, bound)))
        fgated = set(cfg.get("fgated", []))
        released = {e[1] for e in obs["obs"] if e[0] == "relf"}
        sreleased = {e[1] for e in obs["obs"] if e[0] == "rels"}
        held = [q for q in fentered - fexited if q in fgated and q not in released]
        src_held = src_pending and pulled in set(cfg.get("sgated", [])) and pulled not in sreleased
        if closing:
            fails.append(("close-hung", "Close has not returned at quiescence (f running on %r, source call pending: %r)"
                          % (sorted(fentered - fexited), src_pending)))
        if inprog is not None:
            if inprog in next_cancelled:
                fails.append(("next-ctx-not-prompt", "a Next call whose context was cancelled has not returned at quiescence"))
            elif not held and not src_held:
                fails.append(("deadlock", "a Next call is still blocked at quiescence although no up-call is held by the scenario "
                              "(taken=%d yielded=%d, f running on %r, source call pending: %r)" % (pulled, yielded, sorted(fentered - fexited), src_pending)))
        if aux.get("cleanup_leak"):
            fails.append(("cleanup-stuck", "after releasing every gate and cancelling every per-call context the pending call did not return within 5 s"))
        elif aux.get("cleanup_close_hung"):
            fails.append(("close-hung", "Close (issued by the clean-up) did not return within 5 s"))
        elif aux.get("goroutines_left", 0) > 0:
            fails.append(("goroutine-leak", "%d goroutines left after Close returned" % aux["goroutines_left"]))
        elif aux.get("src_closed_final", 1) != 1:
            fails.append(("close-source-not-closed", "after Close the source was closed %d times" % aux.get("src_closed_final")))
        return fails

    def stats(self, case, obs, acc):
        cfg = case["cfg"]
        d = acc.setdefault("scenarios", {"n": {}, "par": {}, "buf": {}, "pattern": {}, "pace": {}, "mode": {}, "results": {}})
        for k, v in (("n", cfg["n"]), ("par", cfg["par"]), ("buf", cfg["buf"]), ("pattern", cfg.get("_pattern")),
                     ("pace", cfg.get("_pace")), ("mode", cfg.get("_mode"))):
            d[k][str(v)] = d[k].get(str(v), 0) + 1
        for e in obs["obs"]:
            if e[0] == "ret-next":
                d["results"][e[1]] = d["results"].get(e[1], 0) + 1
            elif e[0] == "ret-close":
                d["results"]["close"] = d["results"].get("close", 0) + 1
        acc["inconclusive_no_quiescence"] = acc.get("inconclusive_no_quiescence", 0) + (0 if obs.get("aux", {}).get("quiescent", True) else 1)
        acc["events_total"] = acc.get("events_total", 0) + len(obs["obs"])

    def nontrivial(self, case, obs):
        return case["cfg"]["n"] >= 2 and sum(1 for o in case["ops"] if o[0] in ("next", "close")) >= 2
