"""C12 — scenario generators, Coq printing and direct oracles for chans.Merge / chans.Replicate
(component "chans") and stream.Merge (component "smerge"); harness in /verif/harness_merge."""
from collections import Counter

from vlib import SeqSpec


def zc(v):
    return "%d%%Z" % v if v >= 0 else "(%d)%%Z" % v


def natlist(l):
    if not l:
        return "(@nil nat)"
    return "[" + "; ".join(str(int(x)) for x in l) + "]"


def lablist(evs):
    return "[" + "; ".join(evs) + "]" if evs else "(@nil lab)"


def inconclusive(obs):
    return not obs.get("aux", {}).get("quiescent", True)


# =================================================================================== chans

class ChansSpec(SeqSpec):
    component = "chans"
    package = "chans"
    imports = "From Juniper Require Import Common.Base Conc.GoLTS Conc.Merge.\nFrom Juniper Require Conc.MergeMatcher.\nImport CM."
    # a rejection counts only when certified genuine (MergeMatcher.CMM.cm_reject_genuine)
    preamble = ("Local Open Scope nat_scope.\n"
                "Definition chk (c : bool * list nat * list nat * list lab) : bool :=\n"
                "  let '(rep, ic, oc, evs) := c in accepts_history rep ic oc evs || negb (MergeMatcher.CMM.cm_converged rep ic oc evs).\n"
                "Definition chk_conv (c : bool * list nat * list nat * list lab) : bool :=\n"
                "  let '(rep, ic, oc, evs) := c in MergeMatcher.CMM.cm_converged rep ic oc evs.")
    checkers = {"M": "chk", "converged": "chk_conv"}
    informational = {"converged"}

    # ---------------------------------------------------------------- generation
    def gen_one(self, rng, idx):
        rep = (idx % 5 == 4)
        if rep:
            nin, nout = 1, rng.choice([0, 1, 1, 2, 2, 3])
        else:
            nin, nout = [0, 1, 2, 3, 4, 7][idx % 6] if idx % 5 != 3 else rng.choice([0, 1, 2, 3, 4, 5, 7]), 1
        big = nin >= 4
        # (the matcher enumerates every schedule compatible with the recorded events: wide scenarios get few buffers
        #  and frequent quiescence points so that the set of compatible model states stays small)
        caps = [rng.choice([0, 0, 0, 1, 2]) for _ in range(nin)] + [rng.choice([0, 0, 1, 2] if not big else [0, 0, 1]) for _ in range(nout)]
        if big:
            keep = rng.randrange(nin)
            caps = [c if (i == keep or i >= nin) else 0 for i, c in enumerate(caps)]
        cmds = []          # per input: list of ("send", v) / ("close",)
        for k in range(nin):
            style = rng.random()
            if style < 0.2:
                cnt = 0                     # ends (or stays silent) without ever producing
            else:
                cnt = rng.choice([1, 1, 2, 2, 3] if not big else [1, 1, 2])
                if rep:
                    cnt = rng.choice([0, 1, 2, 3, 4])
            l = [["send", k, k * 1000 + i] for i in range(cnt)]
            if rng.random() < 0.8:
                l.append(["close", k])
            cmds.append(l)
        total = sum(1 for l in cmds for c in l if c[0] == "send")
        # interleave the per-input command lists in random order (bursts: sometimes take several from one input)
        order = []
        pend = [list(l) for l in cmds]
        while any(pend):
            k = rng.choice([i for i, l in enumerate(pend) if l])
            burst = rng.choice([1, 1, 1, 2, 3])
            for _ in range(burst):
                if pend[k]:
                    order.append(pend[k].pop(0))
        # permits: enough (usually), too few, or late
        permits = []
        for j in range(nout):
            want = total + 1 if rng.random() < 0.75 else rng.randrange(0, total + 1)
            while want > 0:
                n = rng.choice([1, 1, 2, want] if not big else [1, 1, 2])
                n = min(n, want)
                permits.append(["permit", j, n])
                want -= n
        late_consumer = rng.random() < 0.25
        ops = list(order)
        start_pos = 0 if rng.random() < 0.6 else rng.randrange(0, len(ops) + 1)
        ops.insert(start_pos, ["start"])
        for p in permits:
            pos = len(ops) if late_consumer else rng.randrange(0, len(ops) + 1)
            ops.insert(pos, p)
        out = []
        qp = rng.choice([0.0, 0.2, 0.5, 1.0] if not big else [0.6, 1.0])
        since = 0
        for o in ops:
            out.append(o)
            since += 1
            if rng.random() < qp or (big and since >= 3):
                out.append(["quiesce"])
                since = 0
        cfg = {"kind": "replicate" if rep else "merge", "nin": nin, "nout": nout, "caps": caps}
        return {"component": "chans", "cfg": cfg, "ops": out}

    def gen(self, rng, tier, scale):
        n = int((240 if tier == "quick" else 3600) * scale)
        return [self.gen_one(rng, i) for i in range(n)]

    # ---------------------------------------------------------------- Coq term
    def coq_case(self, case, obs):
        cfg = case["cfg"]
        nin = cfg["nin"]
        evs = []
        for e in obs["obs"]:
            k = e[0]
            if k == "start":
                evs.append("LStart")
            elif k == "ret":
                evs.append("LRet")
            elif k == "cmd-send":
                evs.append("LCmd %d (CSend %s)" % (e[1], zc(e[2])))
            elif k == "cmd-close":
                evs.append("LCmd %d CClose" % e[1])
            elif k == "permit":
                evs.append("LPermit %d %d" % (e[1], e[2]))
            elif k == "sent":
                evs.append("LSent %d %s" % (e[1], zc(e[2])))
            elif k == "closed":
                evs.append("LClosed %d" % e[1])
            elif k == "recvd":
                evs.append("LRecvd %d %s" % (e[1], zc(e[2])))
            elif k == "quiesce":
                if e[1]:
                    evs.append("LQuiesce")
            else:
                evs.append("LRecvd 999 0%Z")     # an event the model never produces (e.g. out-closed)
        if inconclusive(obs):
            evs = []
        return "(%s, %s, %s, %s)" % ("true" if cfg["kind"] == "replicate" else "false",
                                     natlist(cfg["caps"][:nin]), natlist(cfg["caps"][nin:]), lablist(evs))

    # ---------------------------------------------------------------- direct oracle
    def oracle(self, case, obs):
        aux = obs.get("aux", {})
        if aux.get("spinning"):
            return [("busy-loop", "the call kept a goroutine running for 5 s without any event and without blocking (busy loop)")]
        if inconclusive(obs):
            return []
        cfg = case["cfg"]
        nin, nout, caps = cfg["nin"], cfg["nout"], cfg["caps"]
        rep = cfg["kind"] == "replicate"
        what = "Replicate" if rep else "Merge"
        pre = "replicate:" if rep else "merge:"
        fails = []
        evs = obs["obs"]
        cmd_send = [[] for _ in range(nin)]
        cmd_close = [False] * nin
        sent = [[] for _ in range(nin)]
        closed = [False] * nin
        recvd = [[] for _ in range(nout)]
        permits = [0] * nout
        started = ret = False
        ret_at = None
        for i, e in enumerate(evs):
            k = e[0]
            if k == "start":
                started = True
            elif k == "cmd-send":
                cmd_send[e[1]].append(e[2])
            elif k == "cmd-close":
                cmd_close[e[1]] = True
            elif k == "sent":
                sent[e[1]].append(e[2])
            elif k == "closed":
                closed[e[1]] = True
            elif k == "permit":
                permits[e[1]] += e[2]
            elif k == "recvd":
                recvd[e[1]].append(e[2])
            elif k == "out-closed":
                fails.append((pre + "closed-output", "%s closed output %d" % (what, e[1])))
            elif k == "ret":
                ret, ret_at = True, i
                # safety half of "finishes exactly when all inputs are exhausted and everything is delivered"
                for kk in range(nin):
                    # (the producer's own "closed"/"sent" reports may lag behind; its commands cannot)
                    if not cmd_close[kk]:
                        fails.append((pre + "early-return", "%s returned (event %d) although input %d had not been closed" % (what, i, kk)))
                        break
                    if len(sent[kk]) != len(cmd_send[kk]):
                        fails.append((pre + "early-return", "%s returned (event %d) before all values queued on input %d were taken" % (what, i, kk)))
                        break
        if fails:
            return fails[:1]
        allv = Counter(v for l in cmd_send for v in l)
        if not rep:
            got = recvd[0] if nout else []
            for v in got:
                if allv[v] == 0:
                    return [(pre + "foreign-value", "Merge delivered %d which no input sent" % v)]
            for k in range(nin):
                mine = [v for v in got if v // 1000 == k]
                if mine != cmd_send[k][:len(mine)]:
                    sig = "duplicate" if len(set(mine)) < len(mine) else "reorder-or-loss"
                    return [(pre + sig, "values from input %d arrived as %r, sent as %r (not a prefix in order)" % (k, mine, cmd_send[k]))]
            nsent = sum(len(l) for l in sent)
            spare = permits[0] > len(got) if nout else False
            if ret and len(got) + caps[nin] < nsent:
                return [(pre + "lost-value", "Merge returned having delivered %d of %d values (output capacity %d)" % (len(got), nsent, caps[nin]))]
            if started and spare:
                # the consumer is waiting with nothing to receive: nothing may be held back anywhere
                want = sum(len(l) for l in cmd_send)
                if len(got) != want:
                    return [(pre + "lost-value", "at final quiescence the consumer is still waiting but only %d of the %d queued values arrived" % (len(got), want))]
            if started and not ret and all(cmd_close) and (spare or len(got) == sum(len(l) for l in cmd_send)):
                return [(pre + "not-terminated", "all %d inputs are closed and everything was delivered, but Merge has not returned at final quiescence" % nin)]
        else:
            src = cmd_send[0]
            for j in range(nout):
                if recvd[j] != src[:len(recvd[j])]:
                    sig = "duplicate" if len(set(recvd[j])) < len(recvd[j]) else "reorder-or-loss"
                    return [(pre + sig, "destination %d received %r, source sent %r (not a prefix in order)" % (j, recvd[j], src))]
            for j in range(nout):
                for j2 in range(j + 1, nout):
                    if len(recvd[j2]) > len(recvd[j]) + caps[nin + j]:
                        return [(pre + "order-of-destinations", "destination %d is ahead of earlier destination %d beyond its buffer" % (j2, j))]
                    if len(recvd[j]) > len(recvd[j2]) + caps[nin + j2] + 1:
                        return [(pre + "order-of-destinations", "destination %d is more than one item ahead of later destination %d" % (j, j2))]
            if ret:
                for j in range(nout):
                    if len(recvd[j]) + caps[nin + j] < len(src):
                        return [(pre + "lost-value", "Replicate returned but destination %d got %d of %d values (capacity %d)" % (j, len(recvd[j]), len(src), caps[nin + j]))]
            allspare = all(permits[j] > len(recvd[j]) for j in range(nout))
            if started and allspare:
                for j in range(nout):
                    if len(recvd[j]) != len(src):
                        return [(pre + "lost-value", "all consumers are waiting but destination %d has %d of %d values" % (j, len(recvd[j]), len(src)))]
                if cmd_close[0] and not ret:
                    return [(pre + "not-terminated", "source closed and everything delivered, but Replicate has not returned at final quiescence")]
        if aux.get("cleanup_leak"):
            return [(pre + "cleanup-leak", "after closing every input and draining the outputs the call still did not return")]
        return []

    def stats(self, case, obs, acc):
        cfg = case["cfg"]
        d = acc.setdefault("scenarios", {"merge_arity": {}, "replicate_dsts": {}, "returned": 0, "values": 0, "buffered_inputs": 0})
        if cfg["kind"] == "merge":
            d["merge_arity"][str(cfg["nin"])] = d["merge_arity"].get(str(cfg["nin"]), 0) + 1
        else:
            d["replicate_dsts"][str(cfg["nout"])] = d["replicate_dsts"].get(str(cfg["nout"]), 0) + 1
        d["returned"] += sum(1 for e in obs["obs"] if e[0] == "ret")
        d["values"] += sum(1 for e in obs["obs"] if e[0] == "recvd")
        d["buffered_inputs"] += sum(1 for c in cfg["caps"][:cfg["nin"]] if c > 0)
        acc["inconclusive_no_quiescence"] = acc.get("inconclusive_no_quiescence", 0) + (1 if inconclusive(obs) else 0)
        acc["events_total"] = acc.get("events_total", 0) + len(obs["obs"])

    def nontrivial(self, case, obs):
        return any(o[0] == "start" for o in case["ops"]) and len(case["ops"]) >= 3


# =================================================================================== stream.Merge

class SMergeSpec(SeqSpec):
    ctx_zoo = True      # contexts come from the zoo (cause / DeadlineExceeded / plain), see vlib.apply_ctx_zoo
    component = "smerge"
    package = "stream"
    imports = "From Juniper Require Import Common.Base Conc.GoLTS Conc.Merge.\nFrom Juniper Require Conc.MergeMatcher.\nImport SM."
    # a rejection counts only when certified genuine (MergeMatcher.SMM.sm_reject_genuine)
    preamble = ("Local Open Scope nat_scope.\n"
                "Definition chk (c : list (list Z * option Z) * list kcmd * nat * list lab) : bool :=\n"
                "  let '(sc, pr, n, evs) := c in accepts_history sc pr n evs || negb (MergeMatcher.SMM.sm_converged sc pr n evs).\n"
                "Definition chk_conv (c : list (list Z * option Z) * list kcmd * nat * list lab) : bool :=\n"
                "  let '(sc, pr, n, evs) := c in MergeMatcher.SMM.sm_converged sc pr n evs.")
    checkers = {"M": "chk", "converged": "chk_conv"}
    informational = {"converged"}

    def gen_one(self, rng, idx):
        n = [0, 1, 2, 3, 4, 2, 3][idx % 7]
        scripts, fins = [], []
        any_err = rng.random() < 0.45
        for i in range(n):
            cnt = rng.choice([0, 1, 1, 2, 3])
            scripts.append([i * 1000 + x for x in range(cnt)])
            if any_err and rng.random() < 0.5:
                # error position = after cnt items: every position via cnt; the code also decides what the error wraps
                # (code % 5: context.Canceled, DeadlineExceeded, nothing, stream.End, stream.ErrClosedPipe)
                fins.append(["err", 100 + 5 * i + rng.randrange(5)])
            else:
                fins.append(["end"])
        total = sum(len(s) for s in scripts)
        nnext = rng.choice([0, 1, total, total + 1, total + 2, rng.randrange(0, total + 3)])
        prog = []
        for _ in range(nnext):
            prog.append(["next", 0 if rng.random() < 0.85 else rng.choice([1, 2])])
        mode = rng.random()
        if mode < 0.75:
            # Close of the output at every point of the consumer's program
            pos = len(prog) if rng.random() < 0.4 else rng.randrange(0, len(prog) + 1)
            prog = prog[:pos] + [["close"]]
        steps = []
        for i in range(n):
            need = len(scripts[i]) + 1
            give = need if rng.random() < 0.7 else rng.randrange(0, need + 1)
            while give > 0:
                k = min(give, rng.choice([1, 1, 2, give]))
                steps.append(["release", i, k])
                give -= k
        left = len(prog)
        gos = []
        while left > 0:
            k = min(left, rng.choice([1, 1, 2, left]))
            gos.append(["go", k])
            left -= k
        if rng.random() < 0.15 and gos:
            gos.pop()                                # the consumer stops early (no Close at all)
        style = rng.random()
        if style < 0.35:
            seqs = steps + gos                      # producers first: workers end up blocked in Send
        elif style < 0.6:
            seqs = gos + steps                      # consumer first: Close while workers are blocked in Next
        else:
            seqs = steps + gos
            rng.shuffle(seqs)
            # keep the go's in order (they are interchangeable) - nothing to fix
        for c in (1, 2):
            if any(p[0] == "next" and p[1] == c for p in prog) and rng.random() < 0.8:
                seqs.insert(rng.randrange(0, len(seqs) + 1), ["cancel", c])
        qp = rng.choice([0.0, 0.3, 0.6, 1.0])
        ops = [["merge"]]
        if rng.random() < 0.5:
            ops.append(["quiesce"])
        for o in seqs:
            ops.append(o)
            if rng.random() < qp:
                ops.append(["quiesce"])
        cfg = {"n": n, "scripts": scripts, "fins": fins, "prog": prog}
        if rng.random() < 0.25:
            # the inputs' Close takes a while (a connection, a file): Close of the merged stream must still not return
            # before every input's Close has - also when all inputs had already run to their end
            cfg["slowclose_ms"] = rng.choice([4, 12])
        return {"component": "smerge", "cfg": cfg, "ops": ops}

    def gen(self, rng, tier, scale):
        n = int((260 if tier == "quick" else 4000) * scale)
        return [self.gen_one(rng, i) for i in range(n)]

    @staticmethod
    def res_s(r):
        k = r[0]
        if k == "item":
            return "(SRItem %s)" % zc(r[1])
        if k == "end":
            return "SREnd"
        if k == "err":
            return "(SRErr (EScr %s))" % zc(r[1])
        if k == "ctx":
            return "(SRErr ECtx)"
        return "(SRErr EClosedPipe)"

    @staticmethod
    def res_n(r):
        k = r[0]
        if k == "item":
            return "(NItem %s)" % zc(r[1])
        if k == "end":
            return "NEnd"
        if k == "err":
            return "(NErr (EScr %s))" % zc(r[1])
        if k == "ctx":
            return "(NErr ECtx)"
        return "(NErr EClosedPipe)"

    def coq_case(self, case, obs):
        cfg = case["cfg"]
        sc = "[" + "; ".join("([%s], %s)" % ("; ".join(zc(v) for v in items),
                                             "None" if fin[0] == "end" else "Some %s" % zc(fin[1]))
                             for items, fin in zip(cfg["scripts"], cfg["fins"])) + "]"
        pr = "[" + "; ".join("KCNext %d" % p[1] if p[0] == "next" else "KCClose" for p in cfg["prog"]) + "]"
        nctx = 1 + max([p[1] for p in cfg["prog"] if p[0] == "next"] + [o[1] for o in case["ops"] if o[0] == "cancel"] + [0])
        evs = []
        for e in obs["obs"]:
            k = e[0]
            if k == "merge":
                evs.append("LMerge")
            elif k == "src-enter":
                evs.append("LSrcEnter %d" % e[1])
            elif k == "src-exit":
                evs.append("LSrcExit %d %s" % (e[1], self.res_s(e[2])))
            elif k == "src-close":
                evs.append("LSrcClose %d" % e[1])
            elif k == "release":
                evs.append("LRelease %d %d" % (e[1], e[2]))
            elif k == "go":
                evs.append("LGo %d" % e[1])
            elif k == "call-next":
                evs.append("LCallNext %d" % e[1])
            elif k == "ret-next":
                evs.append("LRetNext %s" % self.res_n(e[1]))
            elif k == "call-close":
                evs.append("LCallClose")
            elif k == "ret-close":
                evs.append("LRetClose")
            elif k == "cancel":
                evs.append("LCancel %d" % e[1])
            elif k == "quiesce":
                if e[1]:
                    evs.append("LQuiesce %d" % e[2])
            else:
                evs.append("LSrcEnter 999")          # e.g. "panic": never produced by the model
        if inconclusive(obs):
            evs = []
        return "(%s, %s, %d, %s)" % (sc if cfg["scripts"] else "(@nil (list Z * option Z))", pr if cfg["prog"] else "(@nil kcmd)",
                                     nctx, lablist(evs))

    def oracle(self, case, obs):
        aux = obs.get("aux", {})
        if aux.get("panic"):
            return [("panic", "the merged stream panicked in the consumer: %s" % aux["panic"])]
        if aux.get("spinning"):
            return [("busy-loop", "a stream goroutine kept running for 5 s without any event and without blocking")]
        if inconclusive(obs):
            return []
        cfg = case["cfg"]
        n = cfg["n"]
        evs = obs["obs"]
        exited_items = [[] for _ in range(n)]
        exit_end = [False] * n
        exit_err = [None] * n
        in_next = [False] * n
        closes = [0] * n
        got = []
        cancelled = set()
        cur_ctx = None                      # context of the pending Next, if any
        script_errs = []                    # errors returned by inputs so far, in log order
        reported = []                       # script errors the consumer saw
        close_called = close_ret = False
        merged = False
        final_alive = None
        for i, e in enumerate(evs):
            k = e[0]
            if k == "merge":
                merged = True
            elif k == "cancel":
                cancelled.add(e[1])
            elif k == "src-enter":
                if closes[e[1]]:
                    return [("next-after-close", "event %d: Next of input %d called after its Close" % (i, e[1]))]
                if close_ret:
                    return [("activity-after-close", "event %d: input %d used after the merged stream's Close returned" % (i, e[1]))]
                in_next[e[1]] = True
            elif k == "src-exit":
                s, r = e[1], e[2]
                in_next[s] = False
                if r[0] == "item":
                    exited_items[s].append(r[1])
                elif r[0] == "end":
                    exit_end[s] = True
                elif r[0] == "err":
                    exit_err[s] = r[1]
                    script_errs.append(r[1])
            elif k == "src-close":
                closes[e[1]] += 1
                if closes[e[1]] > 1:
                    return [("input-closed-twice", "event %d: input %d closed a second time" % (i, e[1]))]
                if in_next[e[1]]:
                    return [("close-during-next", "event %d: input %d closed while its Next is in progress" % (i, e[1]))]
                if close_ret:
                    return [("activity-after-close", "event %d: input %d closed after the merged stream's Close returned" % (i, e[1]))]
            elif k == "call-next":
                cur_ctx = e[1]
            elif k == "ret-next":
                r = e[1]
                ctx_of_call, cur_ctx = cur_ctx, None
                if r[0] == "item":
                    v = r[1]
                    s = v // 1000
                    if not (0 <= s < n) or v not in exited_items[s]:
                        return [("foreign-value", "event %d: the merged stream yielded %d which no input has produced" % (i, v))]
                    got.append(v)
                    mine = [x for x in got if x // 1000 == s]
                    if mine != exited_items[s][:len(mine)]:
                        sig = "duplicate" if len(set(mine)) < len(mine) else "reorder-or-loss"
                        return [(sig, "event %d: items of input %d arrived as %r, produced as %r" % (i, s, mine, exited_items[s]))]
                elif r[0] == "end":
                    if not all(exit_end):
                        bad = [s for s in range(n) if not exit_end[s]]
                        return [("early-end", "event %d: End reported although inputs %r have not ended" % (i, bad))]
                    if sorted(got) != sorted(v for l in exited_items for v in l):
                        return [("lost-value", "event %d: End reported but only %d of %d items were delivered" % (i, len(got), sum(len(l) for l in exited_items)))]
                elif r[0] == "err":
                    if r[1] not in script_errs:
                        return [("unknown-error", "event %d: error %d reported, but no input has returned it" % (i, r[1]))]
                    reported.append(r[1])
                    if len(set(reported)) > 1:
                        return [("error-changed", "the consumer saw different errors %r: only the first one may be reported" % reported)]
                elif r[0] == "ctx":
                    if ctx_of_call not in cancelled:
                        return [("spurious-ctx-error", "event %d: Next returned a context error but its context %r was never cancelled" % (i, ctx_of_call))]
                else:
                    return [("unexpected-result", "event %d: Next returned %r" % (i, r))]
            elif k == "call-close":
                close_called = True
            elif k == "ret-close":
                close_ret = True
                for s in range(n):
                    if closes[s] != 1:
                        return [("input-not-closed", "Close of the merged stream returned but input %d was closed %d times" % (s, closes[s]))]
                    if in_next[s]:
                        return [("next-pending-after-close", "Close of the merged stream returned while Next of input %d is in progress" % s)]
            elif k == "quiesce":
                final_alive = e[2]
            elif k == "panic":
                return [("panic", "the merged stream panicked")]
        if aux.get("protocol_violations"):
            return [("input-misuse", "an input saw overlapping Next calls or a call after its Close (%d times)" % aux["protocol_violations"])]
        # --- at final quiescence
        if close_called and not close_ret:
            return [("close-stuck", "Close of the merged stream has not returned at final quiescence (%s worker goroutines alive; inputs inside Next: %r)"
                     % (final_alive, [s for s in range(n) if in_next[s]]))]
        if close_ret and final_alive:
            return [("goroutine-leak", "%d worker goroutines are still alive after Close returned" % final_alive)]
        if cur_ctx is not None and cur_ctx not in cancelled and not close_called:
            # a Next call is blocked: it must have nothing to report
            if n == 0 or all(exit_end):
                return [("end-not-reported", "all %d inputs have ended but the consumer's Next is still blocked at final quiescence" % n)]
            if script_errs:
                return [("error-not-reported", "an input failed with error %d but the consumer's Next is still blocked at final quiescence" % script_errs[0])]
            undelivered = [v for l in exited_items for v in l if v not in got]
            if undelivered:
                return [("item-stuck", "items %r were produced but the consumer's Next is still blocked at final quiescence" % undelivered)]
        if merged and final_alive == 0 and n > 0:
            for s in range(n):
                if closes[s] != 1:
                    return [("input-not-closed", "all worker goroutines are gone but input %d was closed %d times" % (s, closes[s]))]
        if aux.get("cleanup_leak"):
            return [("cleanup-leak", "goroutines of the merged stream survive cancelling everything and closing it")]
        return []

    def stats(self, case, obs, acc):
        cfg = case["cfg"]
        d = acc.setdefault("scenarios", {"arity": {}, "with_error": 0, "with_close": 0, "close_while_in_next": 0,
                                         "close_while_in_send": 0, "results": {}})
        d["arity"][str(cfg["n"])] = d["arity"].get(str(cfg["n"]), 0) + 1
        d["with_error"] += 1 if any(f[0] == "err" for f in cfg["fins"]) else 0
        d["with_close"] += 1 if any(p[0] == "close" for p in cfg["prog"]) else 0
        in_next = set()
        holding = set()
        for e in obs["obs"]:
            if e[0] == "src-enter":
                in_next.add(e[1])
                holding.discard(e[1])
            elif e[0] == "src-exit":
                in_next.discard(e[1])
                if e[2][0] == "item":
                    holding.add(e[1])
            elif e[0] == "call-close":
                d["close_while_in_next"] += 1 if in_next else 0
                d["close_while_in_send"] += 1 if holding else 0
            elif e[0] == "ret-next":
                d["results"][e[1][0]] = d["results"].get(e[1][0], 0) + 1
        acc["inconclusive_no_quiescence"] = acc.get("inconclusive_no_quiescence", 0) + (1 if inconclusive(obs) else 0)
        acc["events_total"] = acc.get("events_total", 0) + len(obs["obs"])

    def nontrivial(self, case, obs):
        return len(case["ops"]) >= 3
