"""C01 — tree.Map/Set answer every call exactly like an ideal sorted map."""
import vlib
from scale_common import ScaleSpec
from tree_common import TreeSpec

SPECS = {"scale": (ScaleSpec(['tree']), "harness", "runner"), "tree": (TreeSpec("c01"), "harness", "runner")}

PROP_FILES = ["C01"]


def conc_puts(ctx):
    """Last sentence of C01: concurrent puts to distinct present keys + reads of other keys, under the race detector."""
    import json, subprocess, os
    ok, out, exe = vlib.build_runner(race=True)
    part = {"what": "concurrent Put to distinct present keys + Get/Contains of other keys under go -race"}
    ctx.coverage.setdefault("parts", {})["concurrent-puts"] = part
    if not ok:
        ctx.violation("harness-build-race", "the -race harness does not build: " + out[-800:], {"build_output": out[-3000:]}, failing_input=False)
        return
    n = 12 if ctx.tier == "quick" else 200
    cases = []
    for i in range(n):
        cases.append({"id": i, "component": "treeconc", "ops": [],
                      "cfg": {"nkeys": ctx.rng.choice([1, 15, 16, 40, 300, 2000]), "writers": ctx.rng.choice([1, 2, 4, 8]),
                              "readers": ctx.rng.choice([0, 1, 4]), "rounds": ctx.rng.choice([1, 5, 30]), "mode": 3}})
    inp = "".join(json.dumps(c) + "\n" for c in cases)
    env = dict(os.environ, GORACE="halt_on_error=1 exitcode=66")
    p = subprocess.run([exe, "treeconc"], input=inp, stdout=subprocess.PIPE, stderr=subprocess.PIPE, text=True, timeout=600, env=env)
    obs = [json.loads(l) for l in p.stdout.split("\n") if l.strip()]
    part["evaluations"] = len(obs)
    part["distinct_nontrivial"] = len({json.dumps(c["cfg"], sort_keys=True) for c in cases[:len(obs)]})
    part["sample"] = {"case": cases[0], "impl_observations": obs[0]["obs"] if obs else None}
    if p.returncode != 0:
        k = len(obs)
        ctx.violation("concurrent-puts:data-race", "the race detector (or a crash) stopped scenario %d: %s" % (k, p.stderr[-1500:]),
                      {"component": "treeconc", "case": cases[k] if k < len(cases) else None, "stderr": p.stderr[-4000:],
                       "how": "build/runner-race treeconc < case (GORACE=halt_on_error=1)"})
        return
    for c, o in zip(cases, obs):
        msg = o["obs"][0][1]
        if msg:
            ctx.violation("concurrent-puts:" + msg.replace(" ", "-"), msg, {"component": "treeconc", "case": c, "impl_observations": o["obs"]})
            break


def run(ctx):
    proofs_ok = ctx.check_proofs(PROP_FILES, extra_targets=["theories/Tree/Corr.vo"])
    ok, out, exe = vlib.build_runner()
    if not ok:
        ctx.violation("harness-build", "the harness does not build against the current tree: " + out[-1500:], {"build_output": out[-4000:]}, failing_input=False)
        return ctx.finish()
    vlib.seq_differential(ctx, TreeSpec("c01"), exe, proofs_ok, tag="tree")
    okS, outS, exeS = vlib.build_runner()
    if okS:
        vlib.seq_differential(ctx, ScaleSpec(['tree']), exeS, proofs_ok, tag="scale")
    else:
        ctx.violation("harness-build", "the harness does not build against the current tree: " + outS[-1500:], {"build_output": outS[-4000:]}, failing_input=False)
    conc_puts(ctx)
    vlib.merge_parts(ctx, "cases = (order mode: compare natural/reversed/coarse, less natural/coarse; Map or Set) x prefill (ascending, descending, sawtooth, random to 0..260 keys, node-capacity boundaries) "
                     "x random Put/Delete/Get/Contains/Len/First/Last/Range/RangeReverse with all 9 bound-kind pairs; compared with the B-tree model (exact), the sorted-list spec and an independent ideal map; "
                     "distinct = hash of ops; non-trivial = >= 8 ops")
    vlib.handle_broken_proof(ctx)
    ctx.finish()
