"""C19 — pure helpers of xslices, xsort, xmaps, xmath, xerrors, xmath/xrand.

One SeqSpec per package (all served by the runner component "pure" of harness_pure).  A case is a
batch of independent calls of ONE function: case["ops"] = [[fn, args...], ...]; the observation
of each call is a dict {"r": [kind, fields...], ...extras}.

* coq_case prints the batch as a list of (pcall, pres) pairs for Pure/Corr.v check_case.
* oracle evaluates the DOCUMENTED behaviour of each function directly on the implementation's
  outputs (independently of the Coq model).  Known defects carry stable signatures:
    Runs:leading-run-lost, Chunk:negative-size-no-panic, Chunk:size-overflow-panic,
    WithStack:not-idempotent          (prefixed with the package tag, e.g. "xslices:")
"""
import functools
import itertools
import math
from collections import Counter

from vlib import SeqSpec, z, zlist

MAXINT = 2 ** 63 - 1
MININT = -2 ** 63
ALPHA = [1, 2, 3]          # 0 is the zero value that in-place functions clear tails with


# ------------------------------------------------------------------ encodings of function arguments

def pred_fn(p):
    if p[0] == "in":
        s = set(p[1])
        return lambda x: x in s
    return lambda x: x < p[1]


def goquot(a, d):
    q = abs(a) // abs(d)
    return q if (a >= 0) == (d > 0) else -q


def rel_fn(r):
    if r[0] == "pairs":
        s = set((a, b) for a, b in r[1])
        return lambda a, b: (a, b) in s
    d = r[1]
    if r[0] == "keylt":
        return lambda a, b: goquot(a, d) < goquot(b, d)
    return lambda a, b: goquot(a, d) == goquot(b, d)


def fn1_fn(f):
    if f[0] == "affine":
        return lambda x: f[1] * x + f[2]
    if f[0] == "table":
        t = {}
        for k, v in reversed(f[1]):
            t[k] = v
        return lambda x: t.get(x, f[2])
    return lambda x: goquot(x, f[1])


def strict_weak(less, vals):
    vals = list(vals)
    for a in vals:
        if less(a, a):
            return False
    for a in vals:
        for b in vals:
            for c in vals:
                if less(a, b) and less(b, c) and not less(a, c):
                    return False
                if not less(a, b) and not less(b, c) and less(a, c):
                    return False
    return True


def equivalence(same, vals):
    vals = list(vals)
    for a in vals:
        if not same(a, a):
            return False
        for b in vals:
            if same(a, b) != same(b, a):
                return False
            for c in vals:
                if same(a, b) and same(b, c) and not same(a, c):
                    return False
    return True


def sorted_by(less, x):
    return all(not less(x[j], x[i]) for i in range(len(x)) for j in range(i + 1, len(x)))


# ------------------------------------------------------------------ Coq term printing

def t_zl(l):
    return zlist(l)


def t_zll(ll):
    return "[" + "; ".join(zlist(l) for l in ll) + "]"


def t_pairs(ps):
    return "[" + "; ".join("(%s, %s)" % (z(a), z(b)) for a, b in ps) + "]"


def t_pred(p):
    return "(PIn %s)" % zlist(p[1]) if p[0] == "in" else "(PLt %s)" % z(p[1])


def t_rel(r):
    if r[0] == "pairs":
        return "(RPairs %s)" % t_pairs(r[1])
    return "(%s %s)" % ("RKeyLt" if r[0] == "keylt" else "RKeyEq", z(r[1]))


def t_fn1(f):
    if f[0] == "affine":
        return "(FAffine %s %s)" % (z(f[1]), z(f[2]))
    if f[0] == "table":
        return "(FTable %s %s)" % (t_pairs(f[1]), z(f[2]))
    return "(FQuot %s)" % z(f[1])


def t_errT(chain):
    t = None
    for layer in reversed(chain):
        if layer[0] == "b":
            t = "(EBase %s)" % z(layer[1])
        elif layer[0] == "w":
            t = "(EWrap %s %s)" % (z(layer[1]), t)
        elif layer[0] == "s":
            t = "(EStack %s)" % t
        else:
            t = "(EBase (-999))"      # an unknown node type reported by the harness: never equal
    return t


def t_err(chain):
    return "None" if chain is None else "(Some %s)" % t_errT(chain)


def t_bool(b):
    return "true" if b else "false"


PRINT = {"z": z, "zl": t_zl, "zll": t_zll, "pairs": t_pairs, "pred": t_pred, "rel": t_rel, "fn1": t_fn1,
         "err": t_err, "errT": t_errT}

# fn -> (Coq constructor, argument kinds)
SIG = {
    "xslices.All": ("SAll", ["zl", "pred"]), "xslices.Any": ("SAny", ["zl", "pred"]),
    "xslices.Chunk": ("SChunk", ["zl", "z"]),
    "xslices.Clear": ("SClear", ["zl"]), "xslices.Clone": ("SClone", ["zl"]),
    "xslices.Compact": ("SCompact", ["zl"]), "xslices.CompactInPlace": ("SCompactInPlace", ["zl"]),
    "xslices.CompactFunc": ("SCompactFunc", ["zl", "rel"]), "xslices.CompactInPlaceFunc": ("SCompactInPlaceFunc", ["zl", "rel"]),
    "xslices.Count": ("SCount", ["zl", "z"]), "xslices.CountFunc": ("SCountFunc", ["zl", "pred"]),
    "xslices.Equal": ("SEqual", ["zl", "zl"]), "xslices.EqualFunc": ("SEqualFunc", ["zl", "zl", "rel"]),
    "xslices.Fill": ("SFill", ["zl", "z"]),
    "xslices.Filter": ("SFilter", ["zl", "pred"]), "xslices.FilterInPlace": ("SFilterInPlace", ["zl", "pred"]),
    "xslices.Group": ("SGroup", ["zl", "fn1"]),
    "xslices.Grow": ("SGrow", ["zl", "zl", "z"]),
    "xslices.Index": ("SIndex", ["zl", "z"]), "xslices.IndexFunc": ("SIndexFunc", ["zl", "pred"]),
    "xslices.Insert": ("SInsert", ["zl", "zl", "z", "zl"]),
    "xslices.Join": ("SJoin", ["zll"]),
    "xslices.LastIndex": ("SLastIndex", ["zl", "z"]), "xslices.LastIndexFunc": ("SLastIndexFunc", ["zl", "pred"]),
    "xslices.Map": ("SMap", ["zl", "fn1"]),
    "xslices.Partition": ("SPartition", ["zl", "pred"]),
    "xslices.Reduce": ("SReduce", ["zl", "z", "z"]),
    "xslices.Remove": ("SRemove", ["zl", "z", "z"]), "xslices.RemoveUnordered": ("SRemoveUnordered", ["zl", "z", "z"]),
    "xslices.Repeat": ("SRepeat", ["z", "z"]),
    "xslices.Reverse": ("SReverse", ["zl"]),
    "xslices.Runs": ("SRuns", ["zl", "rel"]),
    "xslices.Shrink": ("SShrink", ["zl", "zl", "z"]),
    "xslices.Unique": ("SUnique", ["zl"]), "xslices.UniqueInPlace": ("SUniqueInPlace", ["zl"]),
    "xsort.Greater": ("OGreater", ["rel", "z", "z"]), "xsort.LessOrEqual": ("OLessOrEqual", ["rel", "z", "z"]),
    "xsort.GreaterOrEqual": ("OGreaterOrEqual", ["rel", "z", "z"]), "xsort.Equal": ("OEqual", ["rel", "z", "z"]),
    "xsort.Reverse": ("OReverse", ["rel", "z", "z"]), "xsort.LessCompare": ("OLessCompare", ["rel", "z", "z"]),
    "xsort.OrderedLess": ("OOrderedLess", ["z", "z"]),
    "xsort.SliceIsSorted": ("OSliceIsSorted", ["rel", "zl"]),
    "xsort.Slice": ("OSlice", ["rel", "zl"]), "xsort.SliceStable": ("OSliceStable", ["rel", "zl"]),
    "xsort.Search": ("OSearch", ["rel", "zl", "z"]),
    "xsort.Merge": ("OMerge", ["rel", "zll"]),
    "xsort.MergeSlices": ("OMergeSlices", ["rel", "z", "zll"]),
    "xsort.MinK": ("OMinK", ["rel", "zl", "z"]),
    "xmaps.Reverse": ("MReverse", ["pairs"]), "xmaps.ReverseSingle": ("MReverseSingle", ["pairs"]),
    "xmaps.ToIndex": ("MToIndex", ["zl"]), "xmaps.FromKeysAndValues": ("MFromKeysAndValues", ["zl", "zl"]),
    "xmaps.SetFromSlice": ("MSetFromSlice", ["zl"]),
    "xmaps.Set.Add": ("MSetAdd", ["zl", "z"]), "xmaps.Set.Remove": ("MSetRemove", ["zl", "z"]),
    "xmaps.Set.Contains": ("MSetContains", ["zl", "z"]),
    "xmaps.Union": ("MUnion", ["zll"]), "xmaps.Intersection": ("MIntersection", ["zll"]),
    "xmaps.Intersects": ("MIntersects", ["zll"]), "xmaps.Difference": ("MDifference", ["zl", "zl"]),
    "xmath.Abs": ("NAbs", ["z", "z"]), "xmath.Min": ("NMin", ["z", "z"]), "xmath.Max": ("NMax", ["z", "z"]),
    "xmath.Clamp": ("NClamp", ["z", "z", "z"]),
    "xerrors.WithStack": ("EWithStack", ["err"]), "xerrors.WithStackTwice": ("EWithStackTwice", ["err"]),
    "xerrors.WithStackIs": ("EWithStackIs", ["err", "errT"]),
    "xrand.Sample": ("XSample", ["z", "z", "z"]), "xrand.SampleSlice": ("XSampleSlice", ["zl", "z", "z"]),
    "xrand.SampleIterator": ("XSampleIterator", ["zl", "z", "z"]), "xrand.Shuffle": ("XShuffle", ["zl", "z"]),
}
ORACLE_ONLY = {"xrand.Freq", "xslices.InsertAliased", "xerrors.WithStackDeep"}
TRACE_WHICH = {"sample": 0, "slice": 1, "iterator": 2, "shuffle": 3}


def trace_term(op, ob):
    """xrand.Trace [which, n-or-items, k, seed, mode] with the recorded draws/swaps of the run as the oracle."""
    which, x, k = op[1], op[2], op[3]
    r = ob["r"]
    draws = r[2] if r[0] == "trace" else []
    swaps = r[3] if r[0] == "trace" else []
    dt = "[" + "; ".join("DStop" if d[0] == "stop" else "DSkip %s %s" % (z(d[1]), z(d[2])) for d in draws) + "]"
    n, a = (x, []) if which == "sample" else (0, x)
    return "XTrace %d %s %s %s %s %s" % (TRACE_WHICH[which], z(n), zlist(a), z(k), dt, t_pairs(swaps))


def call_term(op):
    ctor, kinds = SIG[op[0]]
    args = list(op[1:])
    if op[0] == "xmath.Abs" and args[0] == 0:
        args[0] = 64                                    # Go's int is 64 bits wide here
    return "%s %s" % (ctor, " ".join(PRINT[k](a) for k, a in zip(kinds, args)))


def res_term(r):
    k = r[0]
    if k == "panic":
        return "RPanic"
    if k == "bool":
        return "RBool %s" % t_bool(r[1])
    if k == "int":
        return "RInt %s" % z(r[1])
    if k == "list":
        return "RList %s" % zlist(r[1])
    if k == "ranges":
        return "RRanges %s" % t_pairs(r[1])
    if k == "inplace":
        return "RInPlace %s %s" % (zlist(r[1]), zlist(r[2]))
    if k == "intlist":
        return "RIntList %s %s" % (z(r[1]), zlist(r[2]))
    if k == "cap":
        return "RCap %s %s %s" % (zlist(r[1]), z(r[2]), t_bool(r[3]))
    if k == "insert":
        return "RInsert %s %s %s" % (zlist(r[1]), t_bool(r[2]), zlist(r[3]))
    if k == "listb":
        return "RListB %s %s" % (zlist(r[1]), t_bool(r[2]))
    if k == "map":
        return "RMap %s" % t_pairs(r[1])
    if k == "mapb":
        return "RMapB %s %s" % (t_pairs(r[1]), t_bool(r[2]))
    if k == "mapl":
        return "RMapL [%s]" % "; ".join("(%s, %s)" % (z(a), zlist(b)) for a, b in r[1])
    if k == "err":
        return "RErr %s" % t_err(r[1])
    raise ValueError("unknown observation kind %r" % (r,))


# ------------------------------------------------------------------ direct oracles (documented behaviour)

def zeros(n):
    return [0] * n


def _inplace(name, ob, exp_ret, s, fails, cleared_sig="tail-not-cleared"):
    """Common checks for functions that work in place and return the shortened slice."""
    r = ob["r"]
    if r[0] != "inplace":
        fails.append((name + ":unexpected-panic", "%s panicked (%s) on a valid input" % (name, ob.get("msg"))))
        return
    ret, after = r[1], r[2]
    if ret != exp_ret:
        fails.append((name + ":wrong-result", "returned %r, documented result is %r" % (ret, exp_ret)))
    elif len(after) != len(s) or after[:len(ret)] != ret:
        fails.append((name + ":not-in-place", "returned %r but s afterwards is %r" % (ret, after)))
    elif after[len(ret):] != zeros(len(s) - len(ret)):
        fails.append((name + ":" + cleared_sig, "obsolete tail not zeroed: s afterwards is %r (returned %r)" % (after, ret)))
    elif ret and not ob.get("alias", True):
        fails.append((name + ":not-aliased", "the returned slice does not share s's array"))


def _unchanged(name, ob, s, fails):
    if "after" in ob and ob["after"] != s:
        fails.append((name + ":input-modified", "input slice %r was modified to %r" % (s, ob["after"])))


def oracle_call(op, ob):
    fn = op[0]
    a = op[1:]
    r = ob["r"]
    name = fn.split(".", 1)[1]
    if fn.startswith("xerrors."):
        name = "WithStack"
    fails = []
    pan = r[0] == "panic"

    def bad(sig, what):
        fails.append((name + ":" + sig, "%s%r: %s" % (fn, tuple(a), what)))

    def expect(kind, val, sig="wrong-result"):
        if pan:
            bad("unexpected-panic", "panicked (%s)" % ob.get("msg"))
        elif r[0] != kind or r[1] != val:
            bad(sig, "returned %r, documented result is %r" % (r[1:], val))

    # ---------------- xslices
    if fn == "xslices.All":
        expect("bool", all(pred_fn(a[1])(x) for x in a[0])); _unchanged(name, ob, a[0], fails)
    elif fn == "xslices.Any":
        expect("bool", any(pred_fn(a[1])(x) for x in a[0])); _unchanged(name, ob, a[0], fails)
    elif fn == "xslices.Chunk":
        s, c = a
        if c <= 0:
            if not pan:
                bad("negative-size-no-panic", "chunkSize=%d <= 0 must panic, returned %r" % (c, ob.get("lists")))
        elif pan:
            if len(s) + c - 1 > MAXINT:
                bad("size-overflow-panic", "valid chunkSize=%d panicked (%s): len(s)+chunkSize-1 overflows" % (c, ob.get("msg")))
            else:
                bad("unexpected-panic", "panicked (%s)" % ob.get("msg"))
        else:
            ls = ob["lists"]
            n = -(-len(s) // c)
            if [x for l in ls for x in l] != s or len(ls) != n or any(len(l) != c for l in ls[:-1]) or (ls and not 1 <= len(ls[-1]) <= c):
                bad("wrong-chunks", "returned %r" % ls)
            elif r[1] != [[i * c, min((i + 1) * c, len(s))] for i in range(n)]:
                bad("not-aliased", "chunks are not the sub-slices of s: offsets %r" % r[1])
            _unchanged(name, ob, s, fails)
    elif fn == "xslices.Clear":
        expect("list", zeros(len(a[0])))
    elif fn == "xslices.Clone":
        expect("list", a[0]); _unchanged(name, ob, a[0], fails)
        if ob.get("alias") and a[0]:
            bad("aliased", "the clone shares the input's array")
    elif fn in ("xslices.Compact", "xslices.CompactInPlace", "xslices.CompactFunc", "xslices.CompactInPlaceFunc"):
        s = a[0]
        eq = rel_fn(a[1]) if len(a) > 1 else (lambda x, y: x == y)
        if equivalence(eq, set(s)):
            exp = [x for i, x in enumerate(s) if i == 0 or not eq(x, s[i - 1])]
            if "InPlace" in fn:
                _inplace(name, ob, exp, s, fails)
            else:
                expect("list", exp); _unchanged(name, ob, s, fails)
                if ob.get("alias") and r[0] == "list" and r[1]:
                    bad("aliased", "the result shares the input's array")
    elif fn == "xslices.Count":
        expect("int", a[0].count(a[1])); _unchanged(name, ob, a[0], fails)
    elif fn == "xslices.CountFunc":
        expect("int", sum(1 for x in a[0] if pred_fn(a[1])(x))); _unchanged(name, ob, a[0], fails)
    elif fn == "xslices.Equal":
        expect("bool", a[0] == a[1])
    elif fn == "xslices.EqualFunc":
        eq = rel_fn(a[2])
        expect("bool", len(a[0]) == len(a[1]) and all(eq(x, y) for x, y in zip(a[0], a[1])))
    elif fn == "xslices.Fill":
        expect("list", [a[1]] * len(a[0]))
    elif fn == "xslices.Filter":
        expect("list", [x for x in a[0] if pred_fn(a[1])(x)]); _unchanged(name, ob, a[0], fails)
        if ob.get("alias") and r[0] == "list" and r[1]:
            bad("aliased", "the result shares the input's array")
    elif fn == "xslices.FilterInPlace":
        _inplace(name, ob, [x for x in a[0] if pred_fn(a[1])(x)], a[0], fails)
    elif fn == "xslices.Group":
        f = fn1_fn(a[1])
        keys = sorted(set(f(x) for x in a[0]))
        expect("mapl", [[k, [x for x in a[0] if f(x) == k]] for k in keys]); _unchanged(name, ob, a[0], fails)
    elif fn == "xslices.Grow":
        s, extra, n = a
        if n < 0:
            if not pan:
                bad("negative-no-panic", "slices.Grow panics for negative n")
        elif pan:
            bad("unexpected-panic", "panicked (%s)" % ob.get("msg"))
        else:
            if r[1] != s or r[2] < len(s) + n:
                bad("wrong-result", "contents %r cap %d" % (r[1], r[2]))
            if r[3] != (len(extra) >= n):
                bad("realloc", "reallocated=%r although cap-len=%d, n=%d" % (not r[3], len(extra), n))
            if ob["after"] != s + extra:
                bad("input-modified", "backing array changed to %r" % ob["after"])
    elif fn == "xslices.Index":
        expect("int", a[0].index(a[1]) if a[1] in a[0] else -1); _unchanged(name, ob, a[0], fails)
    elif fn == "xslices.IndexFunc":
        expect("int", next((i for i, x in enumerate(a[0]) if pred_fn(a[1])(x)), -1)); _unchanged(name, ob, a[0], fails)
    elif fn == "xslices.Insert":
        s, extra, i, v = a
        if not 0 <= i <= len(s):
            if not pan:
                bad("out-of-range-no-panic", "idx=%d out of range must panic" % i)
        elif pan:
            bad("unexpected-panic", "panicked (%s)" % ob.get("msg"))
        else:
            exp = s[:i] + v + s[i:]
            if r[1] != exp:
                bad("wrong-result", "returned %r, documented %r" % (r[1], exp))
            elif v and r[2] != (len(s) + len(v) <= len(s) + len(extra)):
                bad("capacity-use", "in place=%r with len=%d cap=%d inserting %d" % (r[2], len(s), len(s) + len(extra), len(v)))
            elif r[2] and r[3][:len(exp)] != exp:
                bad("not-in-place", "array afterwards %r" % r[3])
            elif r[2] and r[3][len(exp):] != (s + extra)[len(exp):]:
                bad("wrote-beyond", "array afterwards %r" % r[3])
            elif not r[2] and r[3] != s + extra:
                bad("input-modified", "reallocating insert modified the original array: %r" % r[3])
    elif fn == "xslices.Join":
        expect("list", [x for l in a[0] for x in l])
    elif fn == "xslices.LastIndex":
        expect("int", max((i for i, x in enumerate(a[0]) if x == a[1]), default=-1)); _unchanged(name, ob, a[0], fails)
    elif fn == "xslices.LastIndexFunc":
        expect("int", max((i for i, x in enumerate(a[0]) if pred_fn(a[1])(x)), default=-1)); _unchanged(name, ob, a[0], fails)
    elif fn == "xslices.Map":
        expect("list", [fn1_fn(a[1])(x) for x in a[0]]); _unchanged(name, ob, a[0], fails)
    elif fn == "xslices.Partition":
        s, f = a[0], pred_fn(a[1])
        if pan:
            bad("unexpected-panic", "panicked (%s)" % ob.get("msg"))
        else:
            k, after = r[1], r[2]
            if Counter(after) != Counter(s):
                bad("not-a-permutation", "s afterwards %r" % after)
            elif not (0 <= k <= len(s)) or any(f(x) for x in after[:k]) or not all(f(x) for x in after[k:]):
                bad("not-partitioned", "returned %d, s afterwards %r" % (k, after))
    elif fn == "xslices.Reduce":
        acc = a[1]
        for x in a[0]:
            acc = acc * a[2] + x
        expect("int", acc); _unchanged(name, ob, a[0], fails)
    elif fn in ("xslices.Remove", "xslices.RemoveUnordered"):
        s, idx, n = a
        valid = idx >= 0 and n >= 0 and idx + n <= len(s)
        if not valid:
            # Remove: slices.Delete documents the panic; RemoveUnordered: nothing is documented
            if fn == "xslices.Remove" and not pan:
                bad("out-of-range-no-panic", "must panic")
        elif pan:
            bad("unexpected-panic", "panicked (%s)" % ob.get("msg"))
        elif fn == "xslices.Remove":
            _inplace(name, ob, s[:idx] + s[idx + n:], s, fails)
        else:
            ret, after = r[1], r[2]
            if len(ret) != len(s) - n or ret[:idx] != s[:idx] or Counter(ret) != Counter(s[:idx] + s[idx + n:]):
                bad("wrong-result", "returned %r" % ret)
            elif after != ret + zeros(n):
                bad("tail-not-cleared", "s afterwards %r, returned %r" % (after, ret))
            elif ret and not ob.get("alias", True):
                bad("not-aliased", "the returned slice does not share s's array")
    elif fn == "xslices.Repeat":
        if a[1] < 0:
            if not pan:
                bad("negative-no-panic", "returned %r" % (r[1:],))
        else:
            expect("list", [a[0]] * a[1])
    elif fn == "xslices.Reverse":
        expect("list", a[0][::-1])
    elif fn == "xslices.Runs":
        s, same = a[0], rel_fn(a[1])
        if equivalence(same, set(s)):
            exp = []
            for i, x in enumerate(s):
                if i > 0 and same(s[i - 1], x):
                    exp[-1].append(x)
                else:
                    exp.append([x])
            if pan:
                bad("unexpected-panic", "panicked (%s)" % ob.get("msg"))
            elif ob["lists"] != exp:
                if exp and len(exp[0]) == 1 and (ob["lists"] == [[]] + exp[1:] or (len(exp) == 1 and ob["lists"] == [])):
                    bad("leading-run-lost", "returned %r, the runs are %r" % (ob["lists"], exp))
                else:
                    bad("wrong-runs", "returned %r, the runs are %r" % (ob["lists"], exp))
            else:
                off = 0
                for l, rg in zip(exp, r[1]):
                    if rg != [off, off + len(l)]:
                        bad("not-aliased", "runs do not use the array of s: offsets %r" % r[1])
                        break
                    off += len(l)
            _unchanged(name, ob, s, fails)
    elif fn == "xslices.Shrink":
        s, extra, n = a
        if n >= 0:
            if pan:
                bad("unexpected-panic", "panicked (%s)" % ob.get("msg"))
            else:
                if r[1] != s or r[2] > len(s) + n:
                    bad("wrong-result", "contents %r cap %d > len+n" % (r[1], r[2]))
                if r[3] != (len(extra) <= n):
                    bad("realloc", "reallocated=%r although cap-len=%d, n=%d" % (not r[3], len(extra), n))
                if ob["after"] != s + extra:
                    bad("input-modified", "backing array changed to %r" % ob["after"])
    elif fn in ("xslices.Unique", "xslices.UniqueInPlace"):
        s = a[0]
        exp = [x for i, x in enumerate(s) if x not in s[:i]]
        if fn.endswith("InPlace"):
            _inplace(name, ob, exp, s, fails)
        else:
            expect("list", exp); _unchanged(name, ob, s, fails)
            if ob.get("alias") and r[0] == "list" and r[1]:
                bad("aliased", "the result shares the input's array")

    # ---------------- xsort
    elif fn in ("xsort.Greater", "xsort.LessOrEqual", "xsort.GreaterOrEqual", "xsort.Equal", "xsort.Reverse"):
        less = rel_fn(a[0]); x, y = a[1], a[2]
        exp = {"Greater": less(y, x), "LessOrEqual": not less(y, x), "GreaterOrEqual": not less(x, y),
               "Equal": not less(x, y) and not less(y, x), "Reverse": less(y, x)}[name]
        expect("bool", exp)
    elif fn == "xsort.LessCompare":
        less = rel_fn(a[0]); x, y = a[1], a[2]
        if not (less(x, y) and less(y, x)):
            expect("int", -1 if less(x, y) else 1 if less(y, x) else 0)
    elif fn == "xsort.OrderedLess":
        expect("bool", a[0] < a[1])
    elif fn == "xsort.SliceIsSorted":
        less = rel_fn(a[0])
        if strict_weak(less, set(a[1])):
            expect("bool", sorted_by(less, a[1]))
        _unchanged(name, ob, a[1], fails)
    elif fn in ("xsort.Slice", "xsort.SliceStable"):
        # sort.Slice / sort.SliceStable: a sorted rearrangement of x; SliceStable keeps equal elements in their original order
        less, x = rel_fn(a[0]), a[1]
        if pan:
            bad("unexpected-panic", "panicked (%s)" % ob.get("msg"))
        elif r[0] != "list" or Counter(r[1]) != Counter(x):
            bad("not-a-permutation", "x afterwards is %r" % (r[1:],))
        elif a[0][0] == "keylt" or strict_weak(less, set(x)):      # a/d < b/d is a strict weak order for every d != 0
            out = r[1]
            if not sorted_by(less, out):
                bad("not-sorted", "x afterwards is %r" % out)
            elif fn == "xsort.SliceStable":
                # python's sort is stable; independent of the Coq model (insertion sort)
                want = sorted(x, key=functools.cmp_to_key(lambda p, q: -1 if less(p, q) else 1 if less(q, p) else 0))
                if out != want:
                    bad("not-stable", "x afterwards is %r; keeping equal elements in their original order gives %r" % (out, want))
    elif fn == "xsort.Search":
        less, x, item = rel_fn(a[0]), a[1], a[2]
        if strict_weak(less, set(x) | {item}) and sorted_by(less, x):
            exp = next((i for i in range(len(x)) if not less(x[i], item)), len(x))
            expect("int", exp)
        _unchanged(name, ob, a[1], fails)
    elif fn in ("xsort.Merge", "xsort.MergeSlices"):
        less = rel_fn(a[0])
        ins = a[-1]
        allv = [x for l in ins for x in l]
        if pan:
            bad("unexpected-panic", "panicked (%s)" % ob.get("msg"))
        else:
            out = r[1]
            if Counter(out) != Counter(allv):
                bad("not-a-permutation", "returned %r" % out)
            elif strict_weak(less, set(allv)) and all(sorted_by(less, l) for l in ins) and not sorted_by(less, out):
                bad("not-sorted", "returned %r" % out)
            if fn == "xsort.Merge" and ob.get("next_after_end"):
                bad("next-after-end", "Next returned true after having returned false")
            if fn == "xsort.MergeSlices":
                if ob["inputs_after"] != ob["inputs_before"]:
                    bad("input-modified", "inputs afterwards %r" % ob["inputs_after"])
                if allv and a[1] >= len(allv) and not r[2]:
                    bad("out-not-used", "cap(out)=%d >= %d but the result was not stored into out" % (a[1], len(allv)))
    elif fn == "xsort.MinK":
        less, items, k = rel_fn(a[0]), a[1], a[2]
        if pan:
            bad("unexpected-panic", "panicked (%s)" % ob.get("msg"))
        elif strict_weak(less, set(items)):
            out = r[1]
            rest = Counter(items) - Counter(out)
            if len(out) != min(max(k, 0), len(items)) or Counter(out) - Counter(items):
                bad("wrong-result", "returned %r" % out)
            elif not sorted_by(less, out):
                bad("not-sorted", "returned %r" % out)
            elif any(less(x, o) for x in rest for o in out):
                bad("not-minimal", "returned %r, left out %r" % (out, sorted(rest.elements())))
        _unchanged(name, ob, a[1], fails)

    # ---------------- xmaps
    elif fn == "xmaps.Reverse":
        m = dict((k, v) for k, v in a[0])
        vals = sorted(set(m.values()))
        expect("mapl", [[v, sorted(k for k in m if m[k] == v)] for v in vals])
    elif fn == "xmaps.ReverseSingle":
        m = dict((k, v) for k, v in a[0])
        if pan:
            bad("unexpected-panic", "panicked (%s)" % ob.get("msg"))
        else:
            res = dict((v, k) for v, k in r[1])
            if r[2] != (len(set(m.values())) == len(m)) or set(res) != set(m.values()) or any(m.get(k) != v for v, k in res.items()):
                bad("wrong-result", "returned %r" % (r[1:],))
    elif fn == "xmaps.ToIndex":
        keys = a[0]
        if pan:
            bad("unexpected-panic", "panicked (%s)" % ob.get("msg"))
        else:
            res = dict((k, i) for k, i in r[1])
            if set(res) != set(keys) or any(not (0 <= i < len(keys)) or keys[i] != k for k, i in res.items()):
                bad("wrong-result", "returned %r" % (r[1],))
    elif fn == "xmaps.FromKeysAndValues":
        keys, vals = a
        if len(keys) != len(vals):
            if not pan:
                bad("length-mismatch-no-panic", "must panic")
        elif pan:
            bad("unexpected-panic", "panicked (%s)" % ob.get("msg"))
        else:
            res = dict((k, v) for k, v in r[1])
            if r[2] != (len(set(keys)) == len(keys)) or set(res) != set(keys) or any(v not in [vals[i] for i in range(len(keys)) if keys[i] == k] for k, v in res.items()):
                bad("wrong-result", "returned %r" % (r[1:],))
    elif fn == "xmaps.SetFromSlice":
        expect("list", sorted(set(a[0])))
    elif fn == "xmaps.Set.Add":
        expect("list", sorted(set(a[0]) | {a[1]}))
    elif fn == "xmaps.Set.Remove":
        expect("list", sorted(set(a[0]) - {a[1]}))
    elif fn == "xmaps.Set.Contains":
        expect("bool", a[1] in a[0])
    elif fn == "xmaps.Union":
        expect("list", sorted(set().union(*[set(s) for s in a[0]])))
    elif fn == "xmaps.Intersection":
        expect("list", sorted(set.intersection(*[set(s) for s in a[0]])) if a[0] else [])
    elif fn == "xmaps.Intersects":
        expect("bool", bool(set.intersection(*[set(s) for s in a[0]])) if a[0] else False)
    elif fn == "xmaps.Difference":
        expect("list", sorted(set(a[0]) - set(a[1])))
    if fn.startswith("xmaps.") and ob.get("inputs_unchanged") is False:
        bad("input-modified", "an input set was modified")

    # ---------------- xmath
    if fn == "xmath.Abs":
        w = a[0] or 64
        if a[1] == -2 ** (w - 1):
            if not pan:
                bad("min-no-panic", "Abs of the minimum value must panic, returned %r" % (r[1:],))
        else:
            expect("int", abs(a[1]))
    elif fn == "xmath.Min":
        expect("int", min(a))
    elif fn == "xmath.Max":
        expect("int", max(a))
    elif fn == "xmath.Clamp":
        if a[1] <= a[2]:
            expect("int", min(max(a[0], a[1]), a[2]))

    # ---------------- xerrors
    elif fn == "xerrors.WithStack" and r[0] != "skip":
        e = a[0]
        if pan:
            bad("unexpected-panic", "panicked (%s)" % ob.get("msg"))
        elif e is None:
            if r[1] is not None:
                bad("nil-not-preserved", "WithStack(nil) = %r" % (r[1],))
        elif any(l[0] == "s" for l in e):
            if r[1] != e:
                bad("not-idempotent", "err already has a stack attached but WithStack returned %r instead of err" % (r[1],))
        else:
            if r[1] != [["s"]] + e:
                bad("wrong-result", "returned %r" % (r[1],))
            elif not ob.get("error_has_inner_text") or not ob.get("error_mentions_harness"):
                bad("error-text", "Error() lacks the inner message or the call stack")
    elif fn == "xerrors.WithStackTwice" and r[0] != "skip":
        if pan:
            bad("unexpected-panic", "panicked (%s)" % ob.get("msg"))
        elif r[1] != ob["once"]:
            bad("not-idempotent", "WithStack(WithStack(err)) = %r, WithStack(err) = %r" % (r[1], ob["once"]))
    elif fn == "xerrors.WithStackIs" and r[0] != "skip":
        expect("bool", ob.get("is_before"), sig="not-transparent-to-Is")
    elif fn == "xerrors.WithStackDeep":
        # "adds the call stack of the call to WithStack to Error()": the functions listed are exactly the frames
        # runtime.Callers reports at the call site, whatever the depth (the stack is collected in pieces)
        if pan:
            bad("unexpected-panic", "panicked (%s)" % ob.get("msg"))
        elif r[1] is not True:
            bad("stack-not-the-call-stack", "at recursion depth %d Error() lists %s frames, the call stack has %s (first difference at frame %s)"
                % (a[0], ob.get("listed"), ob.get("frames"), ob.get("first_diff")))

    # ---------------- xrand (structure only; the distribution is outside the property's checkable part)
    elif fn == "xrand.Sample":
        n, k = a[0], a[1]
        if k >= 0 and n >= 0:
            if pan:
                bad("unexpected-panic", "panicked (%s)" % ob.get("msg"))
            elif len(r[1]) != min(k, n) or len(set(r[1])) != len(r[1]) or any(not 0 <= x < n for x in r[1]):
                bad("wrong-structure", "returned %r" % (r[1],))
    elif fn in ("xrand.SampleSlice", "xrand.SampleIterator"):
        s, k = a[0], a[1]
        if k >= 0:
            if pan:
                bad("unexpected-panic", "panicked (%s)" % ob.get("msg"))
            elif len(r[1]) != min(k, len(s)) or len(set(r[1])) != len(r[1]) or any(x not in s for x in r[1]):
                bad("wrong-structure", "returned %r" % (r[1],))
            _unchanged(name, ob, s, fails)
    elif fn == "xrand.Shuffle":
        if pan:
            bad("unexpected-panic", "panicked (%s)" % ob.get("msg"))
        elif sorted(r[1]) != sorted(a[0]):
            bad("not-a-permutation", "returned %r" % (r[1],))
    elif fn == "xrand.Trace":
        which, x, k = a[0], a[1], a[2]
        if which == "shuffle":
            if pan or sorted(r[1]) != sorted(x):
                bad("not-a-permutation", "returned %r" % (r[1:2],))
        elif k >= 0 and (which != "sample" or x >= 0):
            n = x if which == "sample" else len(x)
            dom = range(n) if which == "sample" else x
            if pan:
                bad("unexpected-panic", "panicked (%s)" % ob.get("msg"))
            elif len(r[1]) != min(k, n) or len(set(r[1])) != len(r[1]) or any(v not in dom for v in r[1]):
                bad("wrong-structure", "returned %r" % (r[1],))
    elif fn == "xslices.InsertAliased":
        sl, idx, lo, hi = op[1], op[3], op[4], op[5]
        want = sl[:idx] + sl[lo:hi] + sl[idx:]
        if r != ["list", want]:
            bad("aliased-values", "xslices.Insert(s, %d, s[%d:%d]...) with s = %r (spare capacity %d) returned %r, want %r"
                % (idx, lo, hi, sl, len(op[2]), r, want))
    elif fn == "xrand.Freq":
        which, n, k, draws = a[0], a[1], a[2], a[3]
        counts = r[1]
        subsets = [str(list(c)).replace(",", "") for c in itertools.combinations(range(n), min(k, n))]
        exp = draws / len(subsets)
        missing = [s for s in subsets if counts.get(s, 0) == 0]
        chi2 = sum((counts.get(s, 0) - exp) ** 2 / exp for s in subsets)
        dof = len(subsets) - 1
        if set(counts) - set(subsets):
            bad("wrong-structure", "a draw is not a %d-subset of [0,%d): %r" % (k, n, sorted(set(counts) - set(subsets))[:3]))
        elif missing and exp >= 20:
            bad("subset-never-produced", "%s n=%d k=%d: subsets never produced in %d draws: %r" % (which, n, k, draws, missing[:5]))
        elif dof > 0 and chi2 > 4 * dof + 60:
            bad("distribution-wildly-off", "%s n=%d k=%d: chi-square %.1f on %d degrees of freedom" % (which, n, k, chi2, dof))
    return fails


# ------------------------------------------------------------------ generators

def all_slices(maxlen, alpha=ALPHA, minlen=0):
    for n in range(minlen, maxlen + 1):
        for t in itertools.product(alpha, repeat=n):
            yield list(t)


def subsets(alpha):
    for n in range(len(alpha) + 1):
        for c in itertools.combinations(alpha, n):
            yield list(c)


PREDS = [["in", s] for s in subsets(ALPHA)]
ALL_PAIRS = [(x, y) for x in ALPHA for y in ALPHA]


def all_rels():
    for bits in range(2 ** len(ALL_PAIRS)):
        yield ["pairs", [list(p) for i, p in enumerate(ALL_PAIRS) if bits >> i & 1]]


def partition_rel(blocks):
    return ["pairs", [[x, y] for b in blocks for x in b for y in b]]


# the five equivalence relations on {1,2,3}
EQUIVS = [partition_rel(b) for b in ([[1], [2], [3]], [[1, 2], [3]], [[1, 3], [2]], [[1], [2, 3]], [[1, 2, 3]])]


def rank_rel(rank):
    return ["pairs", [[x, y] for x in rank for y in rank if rank[x] < rank[y]]]


# all strict weak orders on {1,2,3}: rank functions up to order isomorphism (13 of them)
ORDERS = []
for _ranks in itertools.product(range(3), repeat=3):
    _r = dict(zip(ALPHA, _ranks))
    _rel = rank_rel(_r)
    if _rel not in ORDERS:
        ORDERS.append(_rel)


def rand_slice(rng, maxlen=40, maxval=20, minval=1):
    return [rng.randint(minval, maxval) for _ in range(rng.randint(0, maxlen))]


def sample(rng, universe, n):
    universe = list(universe)
    if len(universe) <= n:
        return universe
    return rng.sample(universe, n)


def batches(ops, size):
    """Group the ops of ONE function into cases."""
    return [{"component": "pure", "fn": ops[0][0], "ops": ops[i:i + size]} for i in range(0, len(ops), size)] if ops else []


class PureSpec(SeqSpec):
    component = "pure"
    imports = "From Juniper Require Import Common.Base Pure.Misc Pure.Rand Pure.Corr."
    checkers = {"M": "check_case"}
    package = None

    def universes(self, rng, tier):
        """-> {fn: (exhaustive small-domain universe (iterable of ops), list of random larger ops)}"""
        raise NotImplementedError

    quick_per_fn = 60
    batch_quick = 12
    batch_thorough = 60

    def always(self):
        """calls that are part of every run (regression inputs for recorded defects), one case each"""
        return []

    def gen(self, rng, tier, scale):
        cases = [{"component": "pure", "fn": op[0], "ops": [op]} for op in self.always()]
        for fn, (small, big) in self.universes(rng, tier).items():
            small = list(small)
            if tier == "quick":
                n = max(4, int(self.quick_per_fn * scale))
                ops = sample(rng, small, n) + list(big)[:max(2, n // 6)]
                cases += batches(ops, self.batch_quick)
            else:
                ops = small + list(big)
                if scale > 1.5:
                    rng.shuffle(ops)
                cases += batches(ops, self.batch_thorough)
        return cases

    def coq_case(self, case, obs):
        items = []
        for op, ob in zip(case["ops"], obs["obs"]):
            if op[0] in ORACLE_ONLY or ob["r"][0] == "skip":
                continue
            if op[0] == "xrand.Trace":
                items.append("(%s, %s)" % (trace_term(op, ob), "RPanic" if ob["r"][0] == "panic" else "RList %s" % zlist(ob["r"][1])))
                continue
            items.append("(%s, %s)" % (call_term(op), res_term(ob["r"])))
        if not items:
            return "(@nil (pcall * pres))"
        return "[" + ";\n  ".join(items) + "]"

    def oracle(self, case, obs):
        fails = []
        for k, op in enumerate(case["ops"]):
            if k >= len(obs["obs"]):
                fails.append(("missing-observation", "call %d %r: the run stopped early" % (k, op)))
                break
            fails += oracle_call(op, obs["obs"][k])
        return fails

    def stats(self, case, obs, acc):
        per = acc.setdefault("calls", {})
        pan = acc.setdefault("panics", {})
        lens = acc.setdefault("first_arg_len", {"0": 0, "1": 0, "2-3": 0, "4-6": 0, ">6": 0})
        for op, ob in zip(case["ops"], obs["obs"]):
            per[op[0]] = per.get(op[0], 0) + 1
            if ob["r"][0] == "panic":
                pan[op[0]] = pan.get(op[0], 0) + 1
            first = next((x for x in op[1:] if isinstance(x, list) and (not x or not isinstance(x[0], str))), None)
            if first is not None:
                n = len(first)
                lens["0" if n == 0 else "1" if n == 1 else "2-3" if n <= 3 else "4-6" if n <= 6 else ">6"] += 1
            if op[0] == "xrand.Freq" and ob["r"][0] == "freq":
                which, n, k, draws = op[1], op[2], op[3], op[4]
                counts = ob["r"][1]
                nsub = math.comb(n, min(k, n))
                exp = draws / nsub
                chi2 = sum((c - exp) ** 2 / exp for c in counts.values()) + (nsub - len(counts)) * exp
                fexp = draws / n if n else 0
                first_chi2 = sum((c - fexp) ** 2 / fexp for c in ob["r"][2].values()) if n and k else 0
                acc.setdefault("sample_frequency_tables(supporting data only)", []).append(
                    {"variant": which, "n": n, "k": k, "draws": draws, "subsets": nsub, "subsets_seen": len(counts),
                     "chi2_subsets": round(chi2, 1), "dof": nsub - 1,
                     "chi2_first_position": round(first_chi2, 1), "dof_first": max(n - 1, 0),
                     "min_count": min(counts.values()) if len(counts) == nsub else 0, "max_count": max(counts.values())})

    def nontrivial(self, case, obs):
        return any(isinstance(x, list) and len(x) >= 2 for op in case["ops"] for x in op[1:]) or self.package in ("xmath",)

    def shrinkable(self):
        return True


# ---------------------------------------------------------------- xslices

class XSlicesSpec(PureSpec):
    package = "xslices"

    def always(self):
        return [["xslices.Runs", [1, 2, 2], ["keyeq", 1]], ["xslices.Runs", [1], ["keyeq", 1]], ["xslices.Runs", [1, 1, 2], ["keyeq", 1]],
                ["xslices.Chunk", [1, 2], -2], ["xslices.Chunk", [1, 2, 3], -5], ["xslices.Chunk", [], -1], ["xslices.Chunk", [1, 2], 0],
                ["xslices.Chunk", [1, 2], MAXINT], ["xslices.Chunk", [1, 2, 3], MAXINT - 1], ["xslices.Chunk", [1], MAXINT], ["xslices.Chunk", [1, 2, 3], 2],
                ["xslices.InsertAliased", [10, 11, 12, 13, 14], [9] * 11, 1, 2, 4], ["xslices.InsertAliased", [10, 11, 12, 13, 14], [9] * 11, 3, 0, 5],
                ["xslices.InsertAliased", [10, 11, 12, 13, 14], [], 1, 2, 4], ["xslices.InsertAliased", [1, 2, 3], [9, 9, 9], 0, 1, 3],
                ["xslices.InsertAliased", [1, 2, 3, 4], [9] * 8, 2, 2, 4], ["xslices.InsertAliased", [1, 2, 3, 4], [9] * 8, 4, 0, 2],
                ["xslices.Shrink", [1, 2, 3], [9, 9], MAXINT], ["xslices.Shrink", [1], [], MAXINT - 1], ["xslices.Shrink", [1, 2, 3], [9], MAXINT - 3]]

    def universes(self, rng, tier):
        L = 5
        sl = list(all_slices(L))
        sl4 = list(all_slices(4))
        sl3 = list(all_slices(3))
        u = {}
        big = lambda f: [f() for _ in range(12 if tier == "quick" else 400)]
        bpred = lambda: rng.choice([["lt", rng.randint(0, 21)], ["in", rng.sample(range(1, 21), rng.randint(0, 10))]])
        for fn in ("All", "Any", "CountFunc", "Filter", "FilterInPlace", "IndexFunc", "LastIndexFunc", "Partition"):
            u["xslices." + fn] = ([["xslices." + fn, s, p] for s in sl for p in PREDS],
                                  big(lambda fn=fn: ["xslices." + fn, rand_slice(rng), bpred()]))
        for fn in ("Count", "Index", "LastIndex", "Fill"):
            u["xslices." + fn] = ([["xslices." + fn, s, x] for s in sl for x in ALPHA + [4]],
                                  big(lambda fn=fn: ["xslices." + fn, rand_slice(rng, maxval=6), rng.randint(0, 7)]))
        for fn in ("Clear", "Clone", "Compact", "CompactInPlace", "Reverse", "Unique", "UniqueInPlace"):
            u["xslices." + fn] = ([["xslices." + fn, s] for s in list(all_slices(6))],
                                  big(lambda fn=fn: ["xslices." + fn, rand_slice(rng, maxval=rng.choice([2, 4, 20]))]))
        rels3 = list(all_rels())
        keyrel = lambda: [rng.choice(["keyeq", "keylt"]), rng.choice([1, 2, 5, 10])]
        for fn in ("CompactFunc", "CompactInPlaceFunc", "Runs"):
            u["xslices." + fn] = ([["xslices." + fn, s, r] for s in sl3 for r in rels3] +
                                  [["xslices." + fn, s, r] for s in all_slices(6, minlen=4) for r in EQUIVS],
                                  big(lambda fn=fn: ["xslices." + fn, rand_slice(rng, maxval=rng.choice([3, 20])), keyrel()]))
        u["xslices.Chunk"] = ([["xslices.Chunk", s, c] for s in sl for c in range(-len(s) - 3, len(s) + 3)] +
                              [["xslices.Chunk", s, c] for s in sl3 for c in sorted(set((MAXINT, MAXINT - 1, MAXINT - len(s), min(MAXINT, MAXINT - len(s) + 1), min(MAXINT, MAXINT - len(s) + 2), 2 ** 62, MININT, MININT + 1, -MAXINT)))],
                              big(lambda: ["xslices.Chunk", rand_slice(rng), rng.randint(1, 45)]))
        for fn in ("Remove", "RemoveUnordered"):
            u["xslices." + fn] = ([["xslices." + fn, s, i, n] for s in sl for i in range(-1, len(s) + 2) for n in range(-1, len(s) + 2)],
                                  big(lambda fn=fn: (lambda s: ["xslices." + fn, s, rng.randint(-1, len(s) + 1), rng.randint(-1, len(s) + 1)])(rand_slice(rng))) +
                                  [["xslices." + fn, [1, 2, 3], i, n] for i, n in ((MAXINT, 1), (1, MAXINT), (MININT, 0), (0, MININT), (2, MAXINT - 1))])
        u["xslices.Insert"] = ([["xslices.Insert", s, [9] * e, i, v] for s in sl3 for e in range(4) for i in range(-1, len(s) + 2)
                                for v in ([], [7], [7, 8], [7, 8, 6])],
                               big(lambda: (lambda s: ["xslices.Insert", s, [9] * rng.randint(0, 8), rng.randint(-1, len(s) + 1), rand_slice(rng, 6)])(rand_slice(rng, 20))))
        for fn in ("Shrink", "Grow"):
            u["xslices." + fn] = ([["xslices." + fn, s, [9] * e, n] for s in sl3 for e in range(4) for n in range(-2, 6)] +
                                  ([["xslices.Shrink", s, [9] * e, n] for s in ([], [1], [1, 2, 3]) for e in (0, 2) for n in (MAXINT, MAXINT - 1, MAXINT - 3, MININT)]
                                   if fn == "Shrink" else []),
                                  big(lambda fn=fn: ["xslices." + fn, rand_slice(rng, 20), [9] * rng.randint(0, 30), rng.randint(-1, 35)]))
        u["xslices.Equal"] = ([["xslices.Equal", s, t] for s in sl3 for t in sl3],
                              big(lambda: (lambda s: ["xslices.Equal", s, rng.choice([list(s), s[:-1], s + [1], rand_slice(rng)])])(rand_slice(rng))))
        u["xslices.EqualFunc"] = ([["xslices.EqualFunc", s, t, r] for s in all_slices(2) for t in all_slices(2) for r in rels3[::7] + EQUIVS],
                                  big(lambda: (lambda s: ["xslices.EqualFunc", s, rng.choice([[x + rng.randint(0, 1) for x in s], s[:-1], rand_slice(rng)]), keyrel()])(rand_slice(rng))))
        u["xslices.Join"] = ([["xslices.Join", list(t)] for n in range(4) for t in itertools.product(list(all_slices(2)), repeat=n)][::5],
                             big(lambda: ["xslices.Join", [rand_slice(rng, 8) for _ in range(rng.randint(0, 6))]]))
        fns = [["affine", 2, 1], ["affine", -1, 0], ["table", [[1, 7], [2, 7], [3, 5]], 0], ["table", [[1, 2]], 9], ["quot", 2], ["affine", 0, 4]]
        for fn in ("Map", "Group"):
            u["xslices." + fn] = ([["xslices." + fn, s, f] for s in sl for f in fns],
                                  big(lambda fn=fn: ["xslices." + fn, rand_slice(rng), rng.choice(fns + [["quot", 5], ["affine", 3, -7]])]))
        u["xslices.Reduce"] = ([["xslices.Reduce", s, i, m] for s in sl for i in (0, 1) for m in (0, 1, 10, -2)],
                               big(lambda: ["xslices.Reduce", rand_slice(rng, 12, 9), rng.randint(-3, 3), rng.choice([0, 1, 2, 10, -1])]))
        u["xslices.Repeat"] = ([["xslices.Repeat", x, n] for x in (0, 1, 5) for n in range(-3, 7)] + [["xslices.Repeat", 1, MININT]],
                               big(lambda: ["xslices.Repeat", rng.randint(-5, 5), rng.randint(-2, 50)]))
        return u


# ---------------------------------------------------------------- xsort

def sorted_slices(maxlen, less):
    return [s for s in all_slices(maxlen) if sorted_by(less, s)]


class XSortSpec(PureSpec):
    package = "xsort"
    quick_per_fn = 70

    def sort_ops(self, rng, tier, fn):
        """The larger inputs of Slice / SliceStable; ALL of them are part of every run (see universes)."""
        def sort_input(n, d):
            ad = abs(d)
            nkeys = rng.choice([1, 2, 3, 5, max(1, n // 2), max(1, n), 4 * max(1, n)])
            shape = rng.choice(["rand", "rand", "rand", "asc", "desc", "pipe", "allequiv", "sawtooth"])
            keys = [rng.randrange(nkeys) for _ in range(n)]
            if shape == "asc":
                keys.sort()
            elif shape == "desc":
                keys.sort(reverse=True)
            elif shape == "pipe":
                keys = sorted(keys[:n // 2]) + sorted(keys[n // 2:], reverse=True)
            elif shape == "allequiv":
                keys = [keys[0] if keys else 0] * n
            elif shape == "sawtooth":
                keys = [i % max(1, nkeys) for i in range(n)]
            if ad == 1:
                off = rng.choice([0, 0, nkeys // 2])
                return [k - off for k in keys]
            tags = list(range(n))                      # distinct tags (mod |d|): the items of a class are identifiable
            if rng.random() < 0.5:
                rng.shuffle(tags)
            return [k * ad + (t % ad) for k, t in zip(keys, tags)]
        ds = [1, -1, 4, -4, 10, -10, 100, -100]
        reps = 1 if tier == "quick" else 12
        ops = []
        for n in list(range(0, 41)) * reps:
            for d in (rng.choice(ds), rng.choice(ds[4:])):
                ops.append([fn, ["keylt", d], sort_input(n, d)])
        for n in ([64, 100, 257, 400] if tier == "quick" else [50, 64, 100, 128, 257, 400, 513, 700] * 6):
            d = rng.choice(ds)
            ops.append([fn, ["keylt", d], sort_input(n, d if abs(d) >= 100 or rng.random() < 0.5 else 100 * (1 if d > 0 else -1))])
        return ops

    def gen(self, rng, tier, scale):
        cases = super().gen(rng, tier, scale)
        for fn in ("xsort.Slice", "xsort.SliceStable"):
            cases += batches(self.sort_ops(rng, tier, fn), 8)
        return cases

    def universes(self, rng, tier):
        u = {}
        big = lambda f: [f() for _ in range(12 if tier == "quick" else 400)]
        rels3 = list(all_rels())
        for fn in ("Greater", "LessOrEqual", "GreaterOrEqual", "Equal", "Reverse", "LessCompare"):
            u["xsort." + fn] = ([["xsort." + fn, r, x, y] for r in rels3[::3] + ORDERS for x in ALPHA for y in ALPHA],
                                big(lambda fn=fn: ["xsort." + fn, ["keylt", rng.choice([1, 3, 10])], rng.randint(-30, 30), rng.randint(-30, 30)]))
        u["xsort.OrderedLess"] = ([["xsort.OrderedLess", x, y] for x in (MININT, -1, 0, 1, MAXINT) for y in (MININT, -1, 0, 1, MAXINT)], [])
        u["xsort.SliceIsSorted"] = ([["xsort.SliceIsSorted", r, s] for r in ORDERS for s in all_slices(4)] +
                                    [["xsort.SliceIsSorted", r, s] for r in rels3[::11] for s in all_slices(3)],
                                    big(lambda: ["xsort.SliceIsSorted", ["keylt", rng.choice([1, 4])], rng.choice([sorted(rand_slice(rng)), rand_slice(rng, 6)])]))
        # Slice / SliceStable: strict weak orders only (what sort.Slice does with an inconsistent less is nobody's contract).
        # Small domain: every strict weak order on {1,2,3} x every slice up to length 5 (ties, but equal items are
        # indistinguishable there).  Larger: items = key*d + tag under ["keylt", +-d] (natural d=1, reversed d=-1, coarse
        # |d| = 4, 10, 100: many ties, the tag shows which of the equivalent items came first); every length 0..40 in
        # every run (sort.Slice: insertion sort up to 12 items, pdqsort above; sort.SliceStable: insertion sort in blocks
        # of 20 + symMerge), a few of some hundred items, and the shapes pdqsort treats specially (sorted, reversed,
        # all equivalent, organ pipe, few distinct keys).
        for fn in ("Slice", "SliceStable"):
            u["xsort." + fn] = ([["xsort." + fn, r, s] for r in ORDERS for s in all_slices(5)], [])
        # Search: every order with ties, every sorted slice, every item; plus unsorted/inconsistent inputs (model comparison only)
        u["xsort.Search"] = ([["xsort.Search", r, s, x] for r in ORDERS for s in sorted_slices(5, rel_fn(r)) for x in ALPHA] +
                             [["xsort.Search", r, s, x] for r in rels3[::13] for s in all_slices(3) for x in ALPHA],
                             big(lambda: (lambda d: ["xsort.Search", ["keylt", d], sorted(rand_slice(rng, 40, 60)), rng.randint(0, 61)])(rng.choice([1, 1, 4, 10]))))
        def ins_small(r):
            s2 = sorted_slices(2, rel_fn(r))
            s3 = sorted_slices(3, rel_fn(r))
            return [list(t) for n in range(4) for t in itertools.product(s2, repeat=n)] + [[s, t] for s in s3 for t in s3 if len(s) + len(t) >= 5]
        msmall = []
        for r in ORDERS:
            allins = ins_small(r)
            msmall += [[r, ins] for ins in (allins if tier != "quick" else sample(rng, allins, 40))]
        def bigins():
            d = rng.choice([1, 1, 3, 10])
            return ["keylt", d], [sorted(rand_slice(rng, rng.choice([0, 1, 5, 20]), 40)) for _ in range(rng.choice([0, 1, 2, 3, 5, 9]))]
        u["xsort.Merge"] = ([["xsort.Merge", r, ins] for r, ins in msmall] +
                            [["xsort.Merge", r, [s, t]] for r in rels3[::17] for s in all_slices(2) for t in all_slices(2)],
                            big(lambda: (lambda p: ["xsort.Merge", p[0], p[1]])(bigins())))
        u["xsort.MergeSlices"] = ([["xsort.MergeSlices", r, c, ins] for r, ins in msmall[::3] for c in (-1, 0, sum(map(len, ins)) - 1, sum(map(len, ins)), sum(map(len, ins)) + 3)],
                                  big(lambda: (lambda p: ["xsort.MergeSlices", p[0], rng.choice([-1, 0, 10, 200]), p[1]])(bigins())))
        u["xsort.MinK"] = ([["xsort.MinK", r, s, k] for r in ORDERS for s in all_slices(4) for k in range(-1, len(s) + 2)] +
                           [["xsort.MinK", r, s, 2] for r in rels3[::19] for s in all_slices(3)],
                           big(lambda: (lambda s: ["xsort.MinK", ["keylt", rng.choice([1, 1, 5])], s, rng.randint(-1, len(s) + 2)])(rand_slice(rng, 40, 30))))
        return u


# ---------------------------------------------------------------- xmaps

def all_maps(keys, vals):
    """every map from a subset of keys to vals, in every iteration order for small sizes"""
    for ks in subsets(keys):
        for vs in itertools.product(vals, repeat=len(ks)):
            yield [[k, v] for k, v in zip(ks, vs)]


class XMapsSpec(PureSpec):
    package = "xmaps"
    quick_per_fn = 70

    def universes(self, rng, tier):
        u = {}
        big = lambda f: [f() for _ in range(12 if tier == "quick" else 400)]
        maps = [list(p) for m in all_maps([1, 2, 3], [7, 8]) for p in itertools.permutations(m)]
        rmap = lambda: [[k, rng.randint(1, 6)] for k in rng.sample(range(1, 30), rng.randint(0, 15))]
        for fn in ("Reverse", "ReverseSingle"):
            u["xmaps." + fn] = ([["xmaps." + fn, m] for m in maps], big(lambda fn=fn: ["xmaps." + fn, rmap()]))
        u["xmaps.ToIndex"] = ([["xmaps.ToIndex", s] for s in all_slices(5)], big(lambda: ["xmaps.ToIndex", rand_slice(rng, 20, 8)]))
        u["xmaps.FromKeysAndValues"] = ([["xmaps.FromKeysAndValues", k, v] for k in all_slices(3) for v in all_slices(3, [7, 8])],
                                        big(lambda: (lambda k: ["xmaps.FromKeysAndValues", k, [rng.randint(1, 9) for _ in range(len(k) + rng.choice([0, 0, 0, 1, -1]))][:max(0, len(k) + 1)]])(rand_slice(rng, 15, 8))))
        u["xmaps.SetFromSlice"] = ([["xmaps.SetFromSlice", s] for s in all_slices(5)], big(lambda: ["xmaps.SetFromSlice", rand_slice(rng, 30, 10)]))
        sets = [list(p) for s in subsets(ALPHA) for p in itertools.permutations(s)]       # every iteration order
        usets = list(subsets(ALPHA))
        for fn in ("Set.Add", "Set.Remove", "Set.Contains"):
            u["xmaps." + fn] = ([["xmaps." + fn, s, k] for s in sets for k in ALPHA + [4]],
                                big(lambda fn=fn: ["xmaps." + fn, rng.sample(range(1, 20), rng.randint(0, 12)), rng.randint(1, 20)]))
        rsets = lambda: [rng.sample(range(1, 12), rng.randint(0, 9)) for _ in range(rng.choice([0, 1, 2, 3, 4, 6]))]
        for fn in ("Union", "Intersection", "Intersects"):
            u["xmaps." + fn] = ([["xmaps." + fn, list(t)] for n in range(4) for t in itertools.product(usets, repeat=n)] +
                                [["xmaps." + fn, [s, t]] for s in sets for t in sets],
                                big(lambda fn=fn: ["xmaps." + fn, rsets()]))
        u["xmaps.Difference"] = ([["xmaps.Difference", s, t] for s in sets for t in usets],
                                 big(lambda: ["xmaps.Difference", rng.sample(range(1, 15), rng.randint(0, 10)), rng.sample(range(1, 15), rng.randint(0, 10))]))
        return u


# ---------------------------------------------------------------- xmath

class XMathSpec(PureSpec):
    package = "xmath"
    quick_per_fn = 120

    def universes(self, rng, tier):
        u = {}
        absops = []
        for w in (8, 16, 32, 64, 0):
            ww = w or 64
            lo, hi = -2 ** (ww - 1), 2 ** (ww - 1) - 1
            vals = [lo, lo + 1, lo + 2, -2, -1, 0, 1, 2, hi - 1, hi, lo // 2, hi // 2] + [rng.randint(lo, hi) for _ in range(20)]
            if w == 8 and tier != "quick":
                vals = list(range(lo, hi + 1))
            absops += [["xmath.Abs", w, x] for x in vals]
        u["xmath.Abs"] = (absops, [])
        ext = [MININT, MININT + 1, -2, -1, 0, 1, 2, MAXINT - 1, MAXINT]
        u["xmath.Min"] = ([["xmath.Min", x, y] for x in ext for y in ext], [["xmath.Min", rng.randint(-99, 99), rng.randint(-99, 99)] for _ in range(30)])
        u["xmath.Max"] = ([["xmath.Max", x, y] for x in ext for y in ext], [["xmath.Max", rng.randint(-99, 99), rng.randint(-99, 99)] for _ in range(30)])
        sm = [MININT, -1, 0, 1, 5, MAXINT]
        u["xmath.Clamp"] = ([["xmath.Clamp", x, lo, hi] for x in sm + [2, 3] for lo in sm for hi in sm],
                            [["xmath.Clamp", rng.randint(-20, 20), rng.randint(-10, 10), rng.randint(-10, 10)] for _ in range(40)])
        return u


# ---------------------------------------------------------------- xerrors

def all_chains(maxdepth):
    """error chains of depth <= maxdepth: a base below any sequence of wrap / stack layers.  Wrapper
    tags are derived from the position, so a tag determines everything beneath it."""
    out = [None]
    for base in (1, 2):
        for d in range(0, maxdepth):
            for kinds in itertools.product("ws", repeat=d):
                chain = [["b", base]]
                tag = 10 * base
                for k in reversed(kinds):
                    tag = tag * 3 + (1 if k == "w" else 2)
                    chain.insert(0, ["w", tag] if k == "w" else ["s"])
                out.append(chain)
    return out


class XErrorsSpec(PureSpec):
    package = "xerrors"
    quick_per_fn = 90

    def always(self):
        return [["xerrors.WithStackDeep", 30], ["xerrors.WithStackDeep", 61], ["xerrors.WithStackDeep", 130], ["xerrors.WithStackDeep", 700],
                ["xerrors.WithStackTwice", [["b", 1]]], ["xerrors.WithStack", [["w", 31], ["s"], ["b", 1]]], ["xerrors.WithStack", None],
                ["xerrors.WithStackIs", [["w", 31], ["b", 1]], [["b", 1]]]]

    def universes(self, rng, tier):
        chains = all_chains(4)
        u = {}
        u["xerrors.WithStack"] = ([["xerrors.WithStack", c] for c in chains], [])
        u["xerrors.WithStackTwice"] = ([["xerrors.WithStackTwice", c] for c in chains], [])
        targets = [[["s"], ["b", -1]]]
        for c in chains:
            for i in range(len(c or [])):
                if c[i:] not in targets:
                    targets.append(c[i:])
        u["xerrors.WithStackIs"] = ([["xerrors.WithStackIs", c, t] for c in chains for t in targets], [])
        u["xerrors.WithStackDeep"] = ([["xerrors.WithStackDeep", d] for d in list(range(0, 140)) + [250, 255, 256, 257, 500, 1000, 5000]], [])
        return u


# ---------------------------------------------------------------- xrand

class XRandSpec(PureSpec):
    package = "xrand"
    quick_per_fn = 150
    trace_hook = False          # set by c19.py when /repo/xmath/xrand/xrand_verif_export.go exists

    def always(self):
        # ranges that end at the largest int with reservoirs of a few thousand: the running index of Algorithm L gets close
        # to 2^63 there (the skips grow like n/k) and must not wrap around
        return [["xrand.Sample", MAXINT, 1024, 0], ["xrand.Sample", MAXINT, 1024, 1], ["xrand.Sample", MAXINT - 1, 1500, 0], ["xrand.Sample", 2 ** 62, 1200, 2]]

    def universes(self, rng, tier):
        u = {}
        seeds = lambda: rng.randint(0, 10 ** 6)
        nk = [(n, k) for n in range(0, 8) for k in range(0, 9)]
        reps = 3 if tier == "quick" else 40
        u["xrand.Sample"] = ([["xrand.Sample", n, k, seeds()] for n, k in nk for _ in range(reps)] +
                             [["xrand.Sample", n, k, -1] for n, k in nk] + [["xrand.Sample", 5, -1, 1], ["xrand.Sample", -1, 2, 1], ["xrand.Sample", -3, 0, 1]],
                             [["xrand.Sample", n, k, seeds()] for n, k in ((1000, 10), (100, 99), (10 ** 6, 3), (50, 50), (50, 70), (MAXINT, 4), (2 ** 40, 20),
                                                                                          (MAXINT, 4096), (MAXINT - 1, 2048), (2 ** 63 - 2 ** 40, 3000), (2 ** 62, 4096))])
        items = lambda n: [10 * (i + 1) + 1 for i in range(n)]      # pairwise distinct items
        for fn in ("SampleSlice", "SampleIterator"):
            u["xrand." + fn] = ([["xrand." + fn, items(n), k, seeds()] for n, k in nk for _ in range(reps)] +
                                [["xrand." + fn, items(n), k, -1] for n, k in nk] + [["xrand." + fn, items(3), -1, 1]],
                                [["xrand." + fn, items(n), k, seeds()] for n, k in ((300, 10), (100, 99), (50, 50), (50, 70), (2000, 1))])
        u["xrand.Shuffle"] = ([["xrand.Shuffle", s, seeds()] for s in all_slices(4)] + [["xrand.Shuffle", items(n), sd] for n in range(0, 9) for sd in (-1, seeds(), seeds())],
                              [["xrand.Shuffle", rand_slice(rng, 60), seeds()] for _ in range(10)])
        if self.trace_hook:
            treps = 2 if tier == "quick" else 25
            u["xrand.Trace"] = ([["xrand.Trace", "sample", n, k, seeds(), m] for n, k in nk for m in range(4) for _ in range(treps)] +
                                [["xrand.Trace", w, items(n), k, seeds(), m] for w in ("slice", "iterator") for n, k in nk for m in range(4) for _ in range(treps)] +
                                [["xrand.Trace", "shuffle", items(n), 0, seeds(), 0] for n in range(0, 9) for _ in range(treps)] +
                                [["xrand.Trace", "sample", 5, -1, 1, 0], ["xrand.Trace", "sample", -1, 2, 1, 0], ["xrand.Trace", "slice", items(3), -1, 1, 0]],
                               [["xrand.Trace", "sample", n, k, seeds(), m] for n, k in ((1000, 10), (100, 99), (2000, 3), (50, 50), (50, 70)) for m in range(4)] +
                               [["xrand.Trace", w, items(n), k, seeds(), m] for w in ("slice", "iterator") for n, k in ((300, 10), (100, 99), (50, 70), (400, 1)) for m in range(4)])
        draws = 4000 if tier == "quick" else 40000
        u["xrand.Freq"] = ([["xrand.Freq", which, n, k, draws, seeds()] for which in ("sample", "slice", "iterator")
                            for n, k in ((4, 2), (5, 3), (6, 1), (6, 5), (3, 3), (7, 2))], [])
        return u

    def gen(self, rng, tier, scale):
        cases = super().gen(rng, tier, scale)
        # frequency tables: always all of them, one per case
        freq = [c for c in cases if c["fn"] == "xrand.Freq"]
        cases = [c for c in cases if c["fn"] != "xrand.Freq"]
        allf = self.universes(rng, tier)["xrand.Freq"][0]
        return cases + [{"component": "pure", "fn": "xrand.Freq", "ops": [op]} for op in allf]


SPECS = [XSlicesSpec, XSortSpec, XMapsSpec, XMathSpec, XErrorsSpec, XRandSpec]
