"""C08 — stream failures surface intact and never lose or duplicate items."""
import vlib
from pipes_common import PipeSpec
from parmap_common import MapStreamSpec

SPECS = {"stream-faults": (PipeSpec("stream", True), "harness", "runner"), "mapstream": (MapStreamSpec(fault_bias=True), "harness_parmap", "runner-parmap")}

PROP_FILES = ["C08"]


def run(ctx):
    proofs_ok = ctx.check_proofs(PROP_FILES, extra_targets=["theories/Iter/Corr.vo", "theories/Conc/ParMapMatcherComplete.vo"])
    ok, out, exe = vlib.build_runner()
    if not ok:
        ctx.violation("harness-build", "the harness does not build against the current tree: " + out[-1500:], {"build_output": out[-4000:]}, failing_input=False)
        return ctx.finish()
    vlib.seq_differential(ctx, PipeSpec("stream", faults=True), exe, proofs_ok, tag="stream-faults")
    # failures of a goroutine-backed stream (parallel.MapStream over a failing source / failing f): C14's scenario family
    okc, outc, exec_ = vlib.build_runner(module="harness_parmap", exe_name="runner-parmap")
    if okc:
        vlib.seq_differential(ctx, MapStreamSpec(fault_bias=True), exec_, proofs_ok, tag="mapstream", scale=0.6)
    else:
        ctx.violation("harness-build", "the harness does not build against the current tree: " + outc[-1500:], {"build_output": outc[-4000:]}, failing_input=False)
    vlib.merge_parts(ctx, "cases = random stream pipelines over scripted sources with transient and fatal errors at every position, failing callbacks (k-th call), "
                     "consumer steps with expired per-call contexts; every faulty case is paired with its fault-erased twin (metamorphic oracle: same successful items); "
                     "distinct = hash of (pipeline, program); non-trivial = at least one combinator and one step")
    vlib.handle_broken_proof(ctx)
    ctx.finish()
