"""C04 — deque.Deque equals an ideal double-ended sequence for every history."""
import vlib
from deque_common import DequeSpec
from scale_common import ScaleSpec

SPECS = {"deque": (DequeSpec(iterators=False), "harness", "runner"), "deque-iter": (DequeSpec(iterators=True), "harness", "runner"),
         "scale": (ScaleSpec(['deque-gc']), "harness", "runner")}

PROP_FILES = ["C04", "TranslatedDeque", "TranslatedDequeRun"]


def run(ctx):
    proofs_ok = ctx.check_proofs(PROP_FILES, extra_targets=["theories/Deque/Corr.vo"])
    ok, out, exe = vlib.build_runner()
    if not ok:
        ctx.violation("harness-build", "the harness does not build against the current tree: " + out[-1500:],
                      {"build_output": out[-4000:]}, failing_input=False)
        return ctx.finish()
    spec = DequeSpec(iterators=False)
    part = vlib.seq_differential(ctx, spec, exe, proofs_ok)
    if "_tri" in part.get("distribution", {}):
        del part["distribution"]["_tri"]
    # Iterate is one of the operations of the property: several iterator handles alive at the same time, stepped in any
    # order (an exhausted handle kept while a new one is created, ...), each must yield the ideal sequence's contents
    part2 = vlib.seq_differential(ctx, DequeSpec(iterators=True), exe, proofs_ok, tag="deque-iter", scale=0.5)
    part2.get("distribution", {}).pop("_tri", None)
    # "elements that have been popped are not retained": a real garbage collection decides (finalizers)
    vlib.seq_differential(ctx, ScaleSpec(['deque-gc']), exe, proofs_ok, tag="scale")
    vlib.merge_parts(ctx, "cases = operation sequences from the zero Deque drawn from 5 weighted profiles "
                     "(balanced, grow, drain, wrap, realloc) with boundary index arguments; distinct = hash of the op list; "
                     "non-trivial = >= 5 ops and at least one value-returning observation; part deque-iter: the same with several live "
                     "iterators stepped in any order; part scale: pointer elements with finalizers, after the history everything "
                     "popped or overwritten must have been garbage collected")
    vlib.handle_broken_proof(ctx)
    ctx.finish(assumptions=["Go int overflow not modelled", "slices/append/copy as documented"])
