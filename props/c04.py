"""C04 — deque.Deque equals an ideal double-ended sequence for every history."""
import vlib
from deque_common import DequeSpec

SPECS = {"deque": (DequeSpec(iterators=False), "harness", "runner")}

PROP_FILES = ["C04"]


def run(ctx):
    proofs_ok = ctx.check_proofs(PROP_FILES, extra_targets=["theories/Deque/Corr.vo"])
    ok, out, exe = vlib.build_runner()
    if not ok:
        ctx.violation("harness-build", "the harness does not build against the current tree: " + out[-1500:],
                      {"build_output": out[-4000:]}, failing_input=False)
        return ctx.finish()
    spec = DequeSpec(iterators=False)
    part = vlib.seq_differential(ctx, spec, exe, proofs_ok)
    if "_tri" in part.get("distribution", {}):
        del part["distribution"]["_tri"]
    vlib.merge_parts(ctx, "cases = operation sequences from the zero Deque drawn from 5 weighted profiles "
                     "(balanced, grow, drain, wrap, realloc) with boundary index arguments; distinct = hash of the op list; "
                     "non-trivial = >= 5 ops and at least one value-returning observation")
    vlib.handle_broken_proof(ctx)
    ctx.finish(assumptions=["Go int overflow not modelled", "slices/append/copy as documented"])
