"""C13 — parallel.Do / DoContext / Map / MapContext: scenario generator, Coq printing, direct oracle."""
import vlib
from vlib import SeqSpec

APIS = ["do", "doctx", "map", "mapctx"]


def map_val(x):
    return 3 * x + 1


def eff_par(cfg):
    p = cfg["par"] if cfg["par"] > 0 else cfg["gmp"]
    return min(p, cfg["n"])


class ParDoSpec(SeqSpec):
    ctx_zoo = True      # contexts come from the zoo (cause / DeadlineExceeded / plain), see vlib.apply_ctx_zoo
    component = "pardo"
    imports = "From Juniper Require Import Common.Base Conc.GoLTS Conc.ParDo.\nFrom Juniper Require Conc.ParDoMatcherComplete."
    # M: the (reduced) matcher, strict. rejections-certified (informational): every rejection is certified genuine by the
    # executable convergence test (C13_matcher_rejections_genuine: then no run of the unreduced model has that trace)
    preamble = ("Local Open Scope nat_scope.\n"
                "Definition chk (c : config * list bool * list ev) : bool := "
                "let '(cf, g, evs) := c in accepts_history cf g evs.\n"
                "Definition chk_cert (c : config * list bool * list ev) : bool := "
                "let '(cf, g, evs) := c in accepts_history cf g evs || ParDoMatcherComplete.pardo_converged cf g evs.")
    checkers = {"M": "chk", "rejections-certified": "chk_cert"}
    informational = {"rejections-certified"}

    # ------------------------------------------------------------------ generation
    def gen_one(self, rng, big_ok):
        api = rng.choice(APIS)
        is_ctx = api in ("doctx", "mapctx")
        gmp = rng.choice([1, 2, 3, 4, 8])
        par = rng.choice([-1, 0, 1, 2, 3, 8, "n+3"])
        if par == "n+3":
            n = rng.choice([0, 1, 2, 3, 5, 9] + ([50] if big_ok else []))
            par = n + 3
        else:
            p = par if par > 0 else gmp
            n = rng.choice([0, 1, 2, max(p - 1, 0), p, p + 1, p + 1, 2 * p + 1] + ([50] if big_ok else []))
        cfg = {"api": api, "n": n, "par": par, "gmp": gmp, "gated": [], "fail": []}
        # failing calls: positions and multiplicities
        if is_ctx and n > 0:
            k = rng.choice([0, 0, 0, 1, 1, 2, 3, n])
            idx = rng.sample(range(n), min(k, n))
            cfg["fail"] = [[i, i + 1] for i in sorted(idx)]
        # latency pattern
        pat = rng.choice(["none", "all-reverse", "overlap", "some", "some", "first-slow"])
        if n == 0:
            pat = "none"
        if pat == "none":
            gated = []
        elif pat in ("all-reverse", "overlap"):
            gated = list(range(n))
        elif pat == "first-slow":
            gated = list(range(min(n, max(1, eff_par(cfg) - 1))))
        else:
            gated = [i for i in range(n) if rng.random() < 0.5]
        cfg["gated"] = gated
        if pat == "all-reverse":
            order = list(reversed(gated))
        else:
            order = list(gated)
            rng.shuffle(order)
        if pat == "some" and order and rng.random() < 0.1:
            order = order[:-1]          # one gate is never released: the call may stay pending
        cancel = "never"
        if is_ctx:
            cancel = rng.choice(["never", "never", "never", "pre", "mid", "mid"])
        ops = []
        if cancel == "pre":
            ops.append(["cancel"])
            if rng.random() < 0.5:
                ops.append(["quiesce"])
        ops.append(["call"])
        if rng.random() < 0.8 or pat == "overlap":
            ops.append(["quiesce"])
        qbudget = 5
        body = [["release", i] for i in order]
        if cancel == "mid":
            body.insert(rng.randrange(len(body) + 1), ["cancel"])
        qprob = 0.5 if len(body) <= 8 else 0.08
        for o in body:
            ops.append(o)
            if qbudget > 0 and rng.random() < qprob:
                ops.append(["quiesce"])
                qbudget -= 1
        return {"component": "pardo", "cfg": cfg, "ops": ops, "pattern": pat, "cancel": cancel}

    def gen(self, rng, tier, scale):
        n = int((320 if tier == "quick" else 5000) * scale)
        cases = []
        for i in range(n):
            cases.append(self.gen_one(rng, big_ok=(i % 5 == 0)))
        return cases

    # ------------------------------------------------------------------ Coq printing
    @staticmethod
    def _b(x):
        return "true" if x else "false"

    def coq_case(self, case, obs):
        cfg = case["cfg"]
        n = cfg["n"]
        is_ctx = cfg["api"] in ("doctx", "mapctx")
        is_map = cfg["api"] in ("map", "mapctx")
        cf = "(mkCfg %s %s %d (%d)%%Z %d)" % (self._b(is_ctx), self._b(is_map), n, cfg["par"], cfg["gmp"])
        gset = set(cfg.get("gated", []))
        gated = ("[" + "; ".join(self._b(i in gset) for i in range(n)) + "]") if n > 0 else "(@nil bool)"
        evs = []
        for e in obs["obs"]:
            k = e[0]
            if k == "call":
                evs.append("ECall")
            elif k == "enter":
                evs.append("EEnter %d %s" % (e[1], self._b(e[2])))
            elif k == "exit":
                evs.append("EExit %d %s (%d)%%Z" % (e[1], "None" if e[2] == 0 else "(Some %d)" % max(e[2], 0), e[3]))
            elif k == "ret":
                code = e[1]
                r = "None" if code == 0 else ("(Some ECtx)" if code == -1 else "(Some (EF %d))" % max(code, 0))
                o = "None" if e[2] is None else "(Some [" + "; ".join("(%d)%%Z" % v for v in e[2]) + "])"
                evs.append("ERet %s %s" % (r, o))
            elif k == "cancel":
                evs.append("ECancel")
            elif k == "cancel-done":
                evs.append("ECancelDone")
            elif k == "release":
                evs.append("ERelease %d" % e[1])
            elif k == "quiesce":
                if e[1]:
                    evs.append("EQuiesce")
        return "(%s, %s, %s)" % (cf, gated, ("[" + "; ".join(evs) + "]") if evs else "(@nil ev)")

    # ------------------------------------------------------------------ direct oracle
    def oracle(self, case, obs):
        """The clauses of C13 evaluated on the recorded history."""
        aux = obs.get("aux", {})
        if not aux.get("quiescent", True):
            return []          # inconclusive run
        cfg = case["cfg"]
        n = cfg["n"]
        api = cfg["api"]
        is_ctx = api in ("doctx", "mapctx")
        is_map = api in ("map", "mapctx")
        p = eff_par(cfg)
        evs = obs["obs"]
        fails = []
        enters = {}
        exits = {}
        inflight = set()
        ret = None
        ret_pos = None
        cancel_seen = False
        cancel_done_q = False      # a quiescence point was reached after cancel() returned
        fail_q = False             # a quiescence point was reached after a failing call returned
        fail_seen = False
        cancel_done = False
        codes_before_ret = set()
        cancelled_live_starts = 0
        for pos, e in enumerate(evs):
            k = e[0]
            if k == "enter":
                i = e[1]
                enters[i] = enters.get(i, 0) + 1
                if enters[i] > 1:
                    fails.append(("dup-start", "event %d: f was started a second time for index %d" % (pos, i)))
                if i < 0 or i >= n:
                    fails.append(("index-out-of-range", "event %d: f called with index %d outside [0,%d)" % (pos, i, n)))
                inflight.add(i)
                if e[3] > max(p, 0) or len(inflight) > max(p, 0):
                    fails.append(("over-parallel", "event %d: %d calls of f in progress (gauge %d) with effective parallelism %d"
                                  % (pos, len(inflight), e[3], p)))
                if ret is not None:
                    fails.append(("enter-after-ret", "event %d: f(%d) started after the API call returned" % (pos, i)))
                if e[2] and not cancel_seen:
                    cancelled_live_starts += 1
                if e[2] and not is_ctx:
                    fails.append(("ctx-without-ctx-api", "event %d: cancelled context seen by a context-free API" % pos))
                if p >= 2 and is_ctx and (fail_q or cancel_done_q):
                    fails.append(("start-after-cancel-quiesced",
                                  "event %d: f(%d) started although a failing call / the caller's cancellation had been followed by a quiescence point"
                                  % (pos, i)))
                if p == 1 and fail_q:
                    fails.append(("start-after-failure-sequential", "event %d: f(%d) started after a failing call on the sequential path" % (pos, i)))
            elif k == "exit":
                i = e[1]
                exits[i] = exits.get(i, 0) + 1
                inflight.discard(i)
                if e[2] != 0:
                    fail_seen = True
                    if ret is None:
                        codes_before_ret.add(e[2])
                if ret is not None:
                    fails.append(("ret-before-exit", "event %d: f(%d) returned after the API call had returned" % (pos, i)))
            elif k == "cancel":
                cancel_seen = True
            elif k == "cancel-done":
                cancel_done = True
            elif k == "quiesce" and e[1]:
                if fail_seen:
                    fail_q = True
                if cancel_done:
                    cancel_done_q = True
            elif k == "ret":
                ret = e
                ret_pos = pos
                code = e[1]
                if inflight:
                    fails.append(("ret-before-exit", "event %d: the API call returned while f(%s) was still running" % (pos, sorted(inflight))))
                if code != 0:
                    allowed = set(codes_before_ret)
                    if cancel_seen:
                        allowed.add(-1)
                    if not is_ctx or code not in allowed:
                        fails.append(("foreign-error", "event %d: returned error code %d is neither an error returned by a call (%s) nor the caller's context error"
                                      % (pos, code, sorted(codes_before_ret))))
                else:
                    if codes_before_ret:
                        fails.append(("nil-despite-failure", "event %d: nil returned although calls failed with %s" % (pos, sorted(codes_before_ret))))
                    missing = [i for i in range(n) if enters.get(i, 0) != 1 or exits.get(i, 0) != 1]
                    if missing:
                        fails.append(("missed-index", "event %d: nil returned but indices %s were not run exactly once" % (pos, missing[:10])))
                    if is_map:
                        out = e[2]
                        want = [map_val(100 + i) for i in range(n)]
                        if out != want:
                            fails.append(("positional", "event %d: Map result %s differs from %s" % (pos, str(out)[:120], str(want)[:120])))
                if is_ctx and code != 0 and not codes_before_ret and not cancel_seen:
                    fails.append(("spurious-error", "event %d: error %d returned although no call failed and the context was never cancelled" % (pos, code)))
        if cancelled_live_starts > max(p - 1, 0):
            fails.append(("too-many-cancelled-starts", "%d calls began with a cancelled context while the caller's context was live (parallelism %d)"
                          % (cancelled_live_starts, p)))
        if aux.get("bad_index_calls", 0):
            fails.append(("index-out-of-range", "f was called %d time(s) with an index outside [0,%d)" % (aux["bad_index_calls"], n)))
        if ret is not None and aux.get("returned"):
            side = aux.get("side_at_ret") or []
            lost = [i for i in enters if 0 <= i < n and (i >= len(side) or side[i] != i + 1)]
            if lost:
                fails.append(("effects-not-visible", "after the call returned the effects of f(%s) were not visible to the caller" % lost[:10]))
            if aux.get("gauge_at_ret", 0) != 0:
                fails.append(("ret-before-exit", "%d calls of f were in progress when the API call returned" % aux["gauge_at_ret"]))
            fc = aux.get("final_counts") or []
            late = [i for i in range(min(n, len(fc))) if fc[i] != enters.get(i, 0)]
            if late and aux.get("cleanup_quiescent", True):
                fails.append(("call-after-return", "f(%s) was called after the API call had returned and the history was cut" % late[:10]))
        # termination: everything the scenario holds back has been released, yet the call has not returned
        called = any(e[0] == "call" for e in evs)
        released = {e[1] for e in evs if e[0] == "release"}
        held = [i for i in cfg.get("gated", []) if i not in released]
        if called and ret is None and not held:
            fails.append(("call-stuck", "all gates released and the run is quiescent but the API call has not returned (in progress: %s)" % sorted(inflight)))
        return fails

    def stats(self, case, obs, acc):
        cfg = case["cfg"]
        d = acc.setdefault("scenarios", {"api": {}, "n": {}, "par": {}, "gmp": {}, "eff": {}, "failing": {}, "cancel": {}, "pattern": {}})
        for k, v in (("api", cfg["api"]), ("n", cfg["n"]), ("par", cfg["par"] if cfg["par"] <= 8 else "n+3"), ("gmp", cfg["gmp"]),
                     ("eff", eff_par(cfg)), ("failing", len(cfg.get("fail", []))), ("cancel", case.get("cancel", "?")),
                     ("pattern", case.get("pattern", "?"))):
            d[k][str(v)] = d[k].get(str(v), 0) + 1
        aux = obs.get("aux", {})
        acc["inconclusive_no_quiescence"] = acc.get("inconclusive_no_quiescence", 0) + (0 if aux.get("quiescent", True) else 1)
        acc["events_total"] = acc.get("events_total", 0) + len(obs["obs"])
        acc["full_overlap_reached"] = acc.get("full_overlap_reached", 0) + (1 if eff_par(cfg) >= 2 and aux.get("max_gauge") == eff_par(cfg) else 0)
        acc["cancelled_starts_seen"] = acc.get("cancelled_starts_seen", 0) + sum(1 for e in obs["obs"] if e[0] == "enter" and e[2])
        acc["returned_error"] = acc.get("returned_error", 0) + sum(1 for e in obs["obs"] if e[0] == "ret" and e[1] != 0)
        acc["pending_at_end"] = acc.get("pending_at_end", 0) + (0 if aux.get("returned") else 1)

    def nontrivial(self, case, obs):
        return case["cfg"]["n"] >= 1 and any(o[0] == "call" for o in case["ops"])
