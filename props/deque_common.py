"""Deque component: generator, Coq term printing, direct oracles (C04 and the deque part of C15)."""
from vlib import SeqSpec, z, zlist, coq_list


def op_term(op):
    n = op[0]
    a = op[1:]
    return {
        "pushfront": lambda: "OpPushFront %s" % z(a[0]),
        "pushback": lambda: "OpPushBack %s" % z(a[0]),
        "popfront": lambda: "OpPopFront",
        "popback": lambda: "OpPopBack",
        "front": lambda: "OpFront",
        "back": lambda: "OpBack",
        "item": lambda: "OpItem %s" % z(a[0]),
        "set": lambda: "OpSet %s %s" % (z(a[0]), z(a[1])),
        "len": lambda: "OpLen",
        "grow": lambda: "OpGrow %s" % z(grow_arg(a[0])),
        "shrink": lambda: "OpShrink %s" % z(a[0]),
        "iterate": lambda: "OpIterate",
        "iternew": lambda: "OpIterNew",
        "iternext": lambda: "OpIterNext %d" % a[0],
    }[n]()


def out_term(o):
    k = o[0]
    if k == "unit":
        return "OUnit"
    if k == "val":
        return "OVal %s" % z(o[1])
    if k == "int":
        return "OInt %s" % z(o[1])
    if k == "list":
        return "OList %s" % zlist(o[1])
    if k == "end":
        return "OEnd"
    if k == "panic":
        return "OPanic"
    return "OBad"


HUGE = {"maxint": 2 ** 63 - 1, "maxint-16": 2 ** 63 - 17, "maxint/2": 2 ** 62 - 1}


def grow_arg(a):
    return HUGE[a] if isinstance(a, str) else a


class DequeSpec(SeqSpec):
    component = "deque"
    imports = "From Juniper Require Import Common.Base Deque.Model Deque.Spec Deque.Corr."
    checkers = {"M": "check_M", "S": "check_S"}
    case_type = "list (op Z) * list (out Z)"

    def __init__(self, iterators):
        self.iterators = iterators     # False: C04 histories; True: C15 histories with live iterators

    # ---------------- generator
    def gen_one(self, rng, nops, profile):
        ops = []
        nxt = [1]
        ln = 0        # generator's own idea of the length (only steers the distribution)
        nit = 0

        def val():
            nxt[0] += 1
            return nxt[0]
        w = dict(profile)
        names = list(w)
        weights = [w[k] for k in names]
        for _ in range(nops):
            k = rng.choices(names, weights)[0]
            if k in ("pushfront", "pushback"):
                ops.append([k, val()])
                ln += 1
            elif k in ("popfront", "popback"):
                ops.append([k])
                ln = max(0, ln - 1)
            elif k in ("front", "back", "len", "iterate"):
                ops.append([k])
            elif k == "item":
                ops.append([k, rng.choice([-1, 0, ln - 1, ln, rng.randint(0, max(0, ln))])])
            elif k == "set":
                ops.append([k, rng.choice([-1, 0, ln - 1, ln, rng.randint(0, max(0, ln))]), val()])
            elif k == "grow":
                # huge arguments (as names: JSON numbers cannot carry them): make() inside Grow panics for them -
                # recoverably, before anything of the deque is written; the history then goes on
                ops.append([k, rng.choice([-3, 0, 1, 2, 5, 17, rng.randint(0, 40), rng.randint(0, 40),
                                          rng.choice(["maxint", "maxint-16", "maxint/2"])])])
            elif k == "shrink":
                ops.append([k, rng.choice([-1, 0, 0, 1, 3, rng.randint(0, 20)])])
            elif k == "iternew":
                ops.append([k])
                nit += 1
            elif k == "iternext":
                if nit == 0:
                    ops.append(["iternew"])
                    nit += 1
                ops.append([k, rng.randrange(nit)])
            elif k == "drainfront":
                for _ in range(ln):
                    ops.append(["popfront"])
                ln = 0
            elif k == "burst":
                side = rng.choice(["pushfront", "pushback"])
                for _ in range(rng.choice([3, 15, 16, 17, 33])):
                    ops.append([side, val()])
                    ln += 1
        return ops

    PROFILES = {
        "balanced": {"pushfront": 6, "pushback": 6, "popfront": 4, "popback": 4, "front": 1, "back": 1, "item": 2,
                     "set": 2, "len": 1, "grow": 1, "shrink": 1, "iterate": 1},
        "grow": {"pushfront": 8, "pushback": 8, "popfront": 2, "popback": 2, "item": 1, "set": 1, "iterate": 1,
                 "burst": 1, "shrink": 1, "grow": 1, "len": 1},
        "drain": {"pushfront": 3, "pushback": 3, "popfront": 5, "popback": 5, "front": 2, "back": 2, "item": 1,
                  "len": 1, "shrink": 2, "iterate": 1, "drainfront": 1, "burst": 1},
        "wrap": {"pushback": 8, "popfront": 7, "pushfront": 1, "popback": 1, "item": 2, "set": 1, "iterate": 2,
                 "shrink": 1, "grow": 1, "burst": 1},
        "realloc": {"pushfront": 4, "pushback": 4, "popfront": 3, "popback": 3, "grow": 4, "shrink": 5, "iterate": 2,
                    "item": 1, "len": 1, "front": 1, "back": 1},
    }
    ITER_EXTRA = {"iternew": 3, "iternext": 9}

    def gen(self, rng, tier, scale):
        n = int((700 if tier == "quick" else 12000) * scale)
        if self.iterators:
            n = int((500 if tier == "quick" else 8000) * scale)
        cases = []
        names = list(self.PROFILES)
        for i in range(n):
            pn = names[i % len(names)]
            prof = dict(self.PROFILES[pn])
            if self.iterators:
                prof.update(self.ITER_EXTRA)
                prof.pop("iterate", None)
            nops = rng.choice([5, 12, 30, 60, 120]) if tier == "quick" else rng.choice([8, 30, 80, 200, 400])
            ops = self.gen_one(rng, nops, prof)
            cfg = {}
            if rng.random() < 0.3:
                # run on Deque[any] where the value 0 is the nil interface: a quarter of the values become 0
                cfg = {"inst": "any"}
                for o in ops:
                    if o[0] in ("pushfront", "pushback") and rng.random() < 0.25:
                        o[1] = 0
                    elif o[0] == "set" and rng.random() < 0.25:
                        o[2] = 0
            cases.append({"component": "deque", "profile": pn, "ops": ops, "cfg": cfg})
        return cases

    def coq_case(self, case, obs):
        return "(%s,\n  %s)" % ("[" + "; ".join(op_term(o) for o in case["ops"]) + "]",
                               "([" + "; ".join(out_term(o) for o in obs["obs"]) + "] : list (out Z))")

    # ---------------- direct oracles on the implementation's observations
    def oracle(self, case, obs):
        fails = []
        ideal = []
        iters = []   # [snapshot, yielded, ended, stale] ; stale = an element was added/removed since creation... see C15
        for k, (op, ob, raw) in enumerate(zip(case["ops"], obs["obs"], obs.get("raw") or [None] * len(case["ops"]))):
            n = op[0]
            exp = None
            changed = False    # contents or layout may have changed
            addrem = False
            if n == "pushfront":
                ideal.insert(0, op[1]); exp = ["unit"]; addrem = True
            elif n == "pushback":
                ideal.append(op[1]); exp = ["unit"]; addrem = True
            elif n == "popfront":
                if ideal:
                    exp = ["val", ideal.pop(0)]; addrem = True
                else:
                    exp = ["panic"]
            elif n == "popback":
                if ideal:
                    exp = ["val", ideal.pop()]; addrem = True
                else:
                    exp = ["panic"]
            elif n == "front":
                exp = ["val", ideal[0]] if ideal else ["panic"]
            elif n == "back":
                exp = ["val", ideal[-1]] if ideal else ["panic"]
            elif n == "item":
                exp = ["val", ideal[op[1]]] if 0 <= op[1] < len(ideal) else ["panic"]
            elif n == "set":
                if 0 <= op[1] < len(ideal):
                    ideal[op[1]] = op[2]; exp = ["unit"]; changed = True
                else:
                    exp = ["panic"]
            elif n == "len":
                exp = ["int", len(ideal)]
            elif n == "grow":
                exp = ["panic"] if grow_arg(op[1]) > 2 ** 47 else ["unit"]      # the allocation fails: contents unchanged
            elif n == "shrink":
                exp = ["panic"] if op[1] < 0 else ["unit"]
            elif n == "iterate":
                exp = ["list", list(ideal)]
            elif n == "iternew":
                iters.append({"snap": list(ideal), "yield": [], "stale": False})
                exp = ["unit"]
            elif n == "iternext":
                if op[1] >= len(iters):
                    continue
                it = iters[op[1]]
                if ob[0] == "val":
                    it["yield"].append(ob[1])
                    if it["yield"] != it["snap"][:len(it["yield"])]:
                        fails.append(("iter-wrong-data", "op %d: iterator %d returned %r; not a prefix of its snapshot %r" % (k, op[1], it["yield"], it["snap"])))
                    elif it["stale"]:
                        fails.append(("iter-no-panic-after-add-remove", "op %d: iterator %d returned an item after an element was added/removed (must panic)" % (k, op[1])))
                elif ob[0] == "end":
                    if it["yield"] != it["snap"]:
                        fails.append(("iter-early-end", "op %d: iterator %d reported exhaustion after %r but its snapshot is %r" % (k, op[1], it["yield"], it["snap"])))
                    elif it["stale"]:
                        fails.append(("iter-no-panic-after-add-remove", "op %d: iterator %d reported the end after an element was added/removed (must panic)" % (k, op[1])))
                elif ob[0] != "panic":
                    fails.append(("iter-bad-observation", "op %d: %r" % (k, ob)))
                exp = None
            if addrem:
                for it in iters:
                    it["stale"] = True
            if exp is not None and ob != exp:
                fails.append(("seq-mismatch:" + n, "op %d %r: implementation returned %r, ideal sequence gives %r" % (k, op, ob, exp)))
                break
            if raw is not None:
                isnil, cap, fr, bk, slots = raw
                ln = len(ideal)
                liveidx = set(((fr + i) % cap) for i in range(ln)) if cap > 0 else set()
                for j, v in enumerate(slots):
                    if j not in liveidx and v != 0:
                        fails.append(("retained-slot", "after op %d %r: raw slot %d holds %r but is outside the live window (front=%d len=%d cap=%d)" % (k, op, j, v, fr, ln, cap)))
                        break
                if fails and fails[-1][0] == "retained-slot":
                    break
        return fails

    def stats(self, case, obs, acc):
        tri = acc.setdefault("_tri", set())
        cl = acc.setdefault("state_classes", {})
        for raw, op in zip(obs.get("raw") or [], case["ops"]):
            isnil, cap, fr, bk, slots = raw
            ln = 0 if (isnil or bk == -1) else (bk - fr + 1 if fr <= bk else cap - fr + bk + 1)
            tri.add((cap, fr, ln))
            c = "nil" if isnil else "cap0" if cap == 0 else "empty-allocated" if ln == 0 else "full-wrapped" if (ln == cap and fr > 0) else "full" if ln == cap else "wrapped" if fr > bk else "contiguous"
            cl[c] = cl.get(c, 0) + 1
        acc["distinct_cap_front_len"] = len(tri)
        oc = acc.setdefault("ops", {})
        for op, ob in zip(case["ops"], obs["obs"]):
            key = op[0] + ("!panic" if ob[0] == "panic" else "")
            oc[key] = oc.get(key, 0) + 1

    def nontrivial(self, case, obs):
        return len(case["ops"]) >= 5 and any(o[0] in ("val", "list") for o in obs["obs"])
