"""C10 — stream.Pipe: FIFO per sender, nothing sent-before-close lost, no stuck call."""
import vlib
from scale_common import ScaleSpec
from pipe_common import PipeSpec

PROP_FILES = ["C10"]
SPECS = {"scale": (ScaleSpec(['pipe', 'pipe-trysend-storm', 'pipe-idle-next']), "harness", "runner"), "pipe": (PipeSpec(), "harness_pipe", "runner-pipe")}
SPECS["scale-deep"] = SPECS["scale"]


def run(ctx):
    proofs_ok = ctx.check_proofs(PROP_FILES, extra_targets=["theories/Conc/Pipe.vo", "theories/Conc/PipeMatcher.vo"])
    ok, out, exe = vlib.build_runner(module="harness_pipe", exe_name="runner-pipe")
    if not ok:
        ctx.violation("harness-build", "the harness does not build against the current tree: " + out[-1500:], {"build_output": out[-4000:]}, failing_input=False)
        return ctx.finish()
    vlib.seq_differential(ctx, PipeSpec(), exe, proofs_ok, tag="pipe")
    if ctx.tier == "thorough":
        vlib.patience_part(ctx, PipeSpec(), exe, proofs_ok, tag="pipe")
    okS, outS, exeS = vlib.build_runner()
    if okS:
        vlib.seq_differential(ctx, ScaleSpec(['pipe', 'pipe-trysend-storm', 'pipe-idle-next']), exeS, proofs_ok, tag="scale")
    else:
        ctx.violation("harness-build", "the harness does not build against the current tree: " + outS[-1500:], {"build_output": outS[-4000:]}, failing_input=False)
    vlib.merge_parts(ctx, "cases = controller scripts (1-4 sender goroutines with scripted Send/TrySend/Close calls released by tokens, Next calls one at a time, "
                     "receiver Close, context cancellation, quiescence points) run against the real stream.Pipe with buffer sizes 0, 1, 2, 8; "
                     "each recorded history must be accepted by the LTS model Conc/Pipe.v (some schedule and some choice of ready select arms produces it, and every "
                     "quiescence point is a model state in which no internal step and no return is enabled) and must pass the direct oracle "
                     "(only sent values, no duplicates, per-sender order, no value acknowledged before Close missing when the end/error is reported, stickiness of the end, "
                     "no call blocked without its documented reason at quiescence); distinct = hash of (cfg, script); non-trivial = >= 1 Send/TrySend and >= 1 Next")
    ctx.assumptions.append("Next is called by one goroutine at a time (the harness never starts a Next while another is pending); PipeSender.Close and the receiver's Close are called at most once (a second call panics in Go)")
    ctx.assumptions.append("the model lets a receive complete the send of ANY parked sender (Go picks the longest-parked one): over-approximation, the theorems hold for the larger set of runs")
    def deep():
        # only when an obligation (e.g. the source census) no longer checks: long idle periods, big storms
        vlib.patience_part(ctx, PipeSpec(), exe, proofs_ok, tag="pipe", ncases=24, ms=6500)
        if okS:
            sp = ScaleSpec(['pipe-trysend-storm', 'pipe-idle-next'])
            sp.force_big = True
            vlib.seq_differential(ctx, sp, exeS, proofs_ok, tag="scale-deep")
    vlib.handle_broken_proof(ctx, deep if ctx.tier == "quick" else None)
    ctx.finish(trusted_extra=["harness_pipe (separate Go module: pipe.go scenario interpreter, conc.go quiescence detection) and props/pipe_common.py (generator, event printing, direct oracle)"])
