"""C17 — xsync.Group: StopAndWait is a barrier; triggers are never lost or overlapped; periodic functions keep running."""
import vlib
from group_common import GroupSpec

PROP_FILES = ["C17"]


class HammerSpec(GroupSpec):
    """Only hammer cases, many of them (used by the search after a broken obligation)."""
    checkers = {}
    single_round = True

    def gen(self, rng, tier, scale):
        return [{"component": "group", "ops": [["hammer", 4000, rng.choice([2, 3]), rng.randrange(1 << 30)]], "cfg": {}} for _ in range(32)]

    def coq_case(self, case, obs):
        return ""



SPECS = {"group": (GroupSpec(), "harness_group", "runner-group")}

SPECS["hammer-deep"] = (HammerSpec(), "harness_group", "runner-group")


def run(ctx):
    proofs_ok = ctx.check_proofs(PROP_FILES, extra_targets=["theories/Conc/Group.vo", "theories/Conc/GroupMatcher.vo"])
    ok, out, exe = vlib.build_runner(module="harness_group", exe_name="runner-group")
    if not ok:
        ctx.violation("harness-build", "the group harness does not build against the current tree: " + out[-1500:],
                      {"build_output": out[-4000:]}, failing_input=False)
        return ctx.finish()
    vlib.seq_differential(ctx, GroupSpec(), exe, proofs_ok, tag="group")
    if ctx.tier == "thorough":
        vlib.patience_part(ctx, GroupSpec(), exe, proofs_ok, tag="group")
    vlib.merge_parts(ctx, "cases = controller scripts (Do/Periodic/Trigger/PeriodicOrTrigger registrations with gated f, trigger bursts "
                     "before/during/right after a run, Stop/StopAndWait and parent cancellation racing registrations from several goroutines) "
                     "run against the real xsync.Group; each recorded history must be accepted by the LTS model Conc/Group.v (some schedule "
                     "produces it and every quiescence point is a model state in which nothing but an irrelevant timer is enabled) and must "
                     "satisfy the direct oracle (barrier, no overlap, no lost trigger, runs complete, no stuck call); "
                     "distinct = hash of script; non-trivial = >= 1 registration and >= 1 stop/cancel/trigger call")
    def deep():
        # only when an obligation (e.g. the source census) no longer checks: patience mode, bigger storms
        vlib.patience_part(ctx, GroupSpec(), exe, proofs_ok, tag="group", ncases=16, ms=6500)
        # brute force on the nanosecond windows of spawn / Stop: 16 processes x 4000 trials
        hs = HammerSpec()
        vlib._seq_differential_once(ctx, hs, exe, proofs_ok, "hammer-deep", 1.0, False, procs=vlib.NPROC)["_distinct"] = None
    vlib.handle_broken_proof(ctx, deep if ctx.tier == "quick" else None)
    ctx.finish(assumptions=[
        "timer semantics of Go < 1.23 (go.mod says go 1.18): capacity-1 channel, Stop reports whether the timer was pending, a fired value stays in the channel",
        "the real-time period/jitter of Periodic is not part of the property (timers fire at arbitrary times after being armed)",
        "periodic liveness is checked one-sidedly: the harness waits for k runs with a generous timeout (timeout = inconclusive)",
    ])
