"""C14 — parallel.MapIterator / MapStream keep order, bound the buffer, never deadlock."""
import vlib
from scale_common import ScaleSpec
from parmap_common import MapIterSpec, MapStreamSpec

PROP_FILES = ["C14"]


SPECS = {"scale": (ScaleSpec(['mapiter', 'mapstream-close-busy', 'mapstream-ferr-storm']), "harness", "runner"), "mapiter": (MapIterSpec(), "harness_parmap", "runner-parmap"), "mapstream": (MapStreamSpec(), "harness_parmap", "runner-parmap")}

SPECS["scale-deep"] = SPECS["scale"]


def run(ctx):
    proofs_ok = ctx.check_proofs(PROP_FILES, extra_targets=["theories/Conc/ParMap.vo", "theories/Conc/ParMapMatcher.vo", "theories/Conc/ParMapMatcherComplete.vo"])
    ok, out, exe = vlib.build_runner(module="harness_parmap", exe_name="runner-parmap")
    if not ok:
        ctx.violation("harness-build", "the harness does not build against the current tree: " + out[-1500:],
                      {"build_output": out[-4000:]}, failing_input=False)
        return ctx.finish()
    vlib.seq_differential(ctx, MapIterSpec(), exe, proofs_ok, tag="mapiter")
    if ctx.tier == "thorough":
        vlib.patience_part(ctx, MapIterSpec(), exe, proofs_ok, tag="mapiter")
    vlib.seq_differential(ctx, MapStreamSpec(), exe, proofs_ok, tag="mapstream")
    if ctx.tier == "thorough":
        vlib.patience_part(ctx, MapStreamSpec(), exe, proofs_ok, tag="mapstream")
    okS, outS, exeS = vlib.build_runner()
    if okS:
        vlib.seq_differential(ctx, ScaleSpec(['mapiter', 'mapstream-close-busy', 'mapstream-ferr-storm']), exeS, proofs_ok, tag="scale")
    else:
        ctx.violation("harness-build", "the harness does not build against the current tree: " + outS[-1500:], {"build_output": outS[-4000:]}, failing_input=False)
    vlib.merge_parts(ctx, "cases = controller scripts (request Next/Close calls, release the gates of f and of the source in orders in which "
                     "late items finish first, cancel the caller's / the per-call contexts, quiesce) run against the real MapIterator and "
                     "MapStream; each recorded history must be accepted by the LTS model (some schedule produces it and every quiescence "
                     "point is a model state with nothing enabled) and satisfy the property's clauses evaluated directly on the history; "
                     "distinct = hash of (script, configuration); non-trivial = >= 2 source items and >= 2 consumer calls")
    def deep():
        # only when an obligation (e.g. the source census) no longer checks: patience mode, bigger storms
        vlib.patience_part(ctx, MapStreamSpec(), exe, proofs_ok, tag="mapstream", ncases=16, ms=6500)
        vlib.patience_part(ctx, MapIterSpec(), exe, proofs_ok, tag="mapiter", ncases=16, ms=6500)
        if okS:
            sp = ScaleSpec(['mapstream-close-busy', 'mapstream-ferr-storm'])
            sp.force_big = True
            vlib.seq_differential(ctx, sp, exeS, proofs_ok, tag="scale-deep")
    vlib.handle_broken_proof(ctx, deep if ctx.tier == "quick" else None)
    ctx.finish()
