"""C10 — stream.Pipe scenarios: generator, Coq printing (Conc/Pipe.v), direct oracle on the recorded history."""
from vlib import SeqSpec

BUFS = [0, 0, 1, 1, 2, 8]


def _threads(case):
    return case["cfg"]["threads"]


class PipeSpec(SeqSpec):
    ctx_zoo = True      # contexts come from the zoo (cause / DeadlineExceeded / plain), see vlib.apply_ctx_zoo
    component = "pipe"
    imports = "From Juniper Require Import Common.Base Conc.GoLTS Conc.Pipe.\nFrom Juniper Require Conc.PipeMatcher."
    # a rejection counts only when certified genuine (PipeMatcher.pipe_reject_genuine: the closures converged within the fuel)
    preamble = ("Local Open Scope nat_scope.\n"
                "Definition chk (c : nat * nat * nat * list lab) : bool := let '(n, nt, nc, evs) := c in accepts_history n nt nc evs || negb (PipeMatcher.pipe_converged n nt nc evs).\n"
                "Definition chk_conv (c : nat * nat * nat * list lab) : bool := let '(n, nt, nc, evs) := c in PipeMatcher.pipe_converged n nt nc evs.")
    checkers = {"M": "chk", "converged": "chk_conv"}
    informational = {"converged"}

    # ------------------------------------------------------------------ generation
    def gen_targeted(self, rng):
        """The windows the property names: values buffered (Send returned nil), then the sender closes, then the
        receiver reads: the end must not overtake the buffered values; racing and parked variants."""
        buf = rng.choice([1, 2, 2, 8])
        k = rng.randint(1, buf)
        e = rng.choice([0, 0, 1])
        variant = rng.choice(["same-thread", "other-thread", "racing", "parked-next"])
        ops = []
        if variant == "same-thread":
            threads = [[[rng.choice(["send", "send", "trysend"]), 0] for _ in range(k)] + [["close", e]]]
            ops += [["go", 0, k + 1], ["quiesce"]]
        elif variant == "other-thread":
            threads = [[["send", 0] for _ in range(k)], [["close", e]]]
            ops += [["go", 0, k], ["quiesce"], ["go", 1, 1], ["quiesce"]]
        elif variant == "racing":
            threads = [[["send", 0] for _ in range(k)] + [["close", e]]]
            ops += [["go", 0, k + 1]]
        else:
            threads = [[["send", 0] for _ in range(k)] + [["close", e]]]
            ops += [["next", 1], ["quiesce"], ["go", 0, k + 1]]
        for _ in range(k + 2):
            ops.append(["next", 1])
            if variant != "racing" or rng.random() < 0.5:
                ops.append(["quiesce"])
        return {"buf": buf, "threads": threads}, ops

    def gen_one(self, rng):
        buf = rng.choice(BUFS)
        nt = rng.choice([1, 1, 2, 2, 3, 4])
        # context ids: t (thread t's calls), nt (receiver, never cancelled), nt+1 (receiver, cancellable), nt+2.. (single calls)
        live, rc = nt, nt + 1
        nextctx = [nt + 2]
        threads = []
        for t in range(nt):
            sc = []
            for _ in range(rng.randint(1, 4)):
                c = t
                if rng.random() < 0.15:
                    c = nextctx[0]
                    nextctx[0] += 1
                sc.append([rng.choice(["send", "send", "send", "trysend"]), c])
            threads.append(sc)
        closer = rng.choice(["none", "thread", "thread", "thread", "ctl", "ctl"])
        e = rng.choice([0, 0, 1])
        if closer == "thread":
            t = rng.randrange(nt)
            pos = len(threads[t]) if rng.random() < 0.6 else rng.randint(0, len(threads[t]))
            threads[t].insert(pos, ["close", e])
        elif closer == "ctl":
            threads.append([["close", e]])
        nsends = sum(1 for sc in threads for o in sc if o[0] != "close")
        remaining = [len(sc) for sc in threads]
        cancellable = list(range(nt)) + [rc] + list(range(nt + 2, nextctx[0]))
        ops = []
        rclosed = False
        budget = nsends + rng.randint(0, 4)
        pq = rng.choice([0.15, 0.4, 0.7])
        steps = 0
        while (any(remaining) or budget > 0) and steps < 60:
            steps += 1
            r = rng.random()
            if r < 0.45 and any(remaining):
                t = rng.choice([i for i, n in enumerate(remaining) if n])
                k = rng.randint(1, remaining[t])
                remaining[t] -= k
                ops.append(["go", t, k])
            elif r < 0.80 and budget > 0:
                budget -= 1
                ops.append(["next", rc if rng.random() < 0.2 else live])
            elif r < 0.88:
                ops.append(["cancel", rng.choice(cancellable)])
            elif r < 0.92 and not rclosed:
                rclosed = True
                ops.append(["rclose"])
            else:
                ops.append(["quiesce"])
                continue
            if rng.random() < pq:
                ops.append(["quiesce"])
        if rng.random() < 0.75:
            # a receiver that keeps reading
            for _ in range(nsends + 2):
                ops.append(["next", live])
                if rng.random() < 0.8:
                    ops.append(["quiesce"])
        return {"buf": buf, "threads": threads}, ops

    def gen(self, rng, tier, scale):
        n = int((250 if tier == "quick" else 3500) * scale)
        cases = []
        for i in range(n):
            cfg, ops = self.gen_targeted(rng) if i % 5 == 0 else self.gen_one(rng)
            cases.append({"component": "pipe", "ops": ops, "cfg": cfg})
        return cases

    # ------------------------------------------------------------------ Coq printing
    RES = {"nil": "RNil", "ctx": "RCtx", "closed": "RClosedPipe", "serr": "RSErr"}

    def coq_case(self, case, obs):
        nt = len(_threads(case))
        nctx = 1
        for sc in _threads(case):
            for o in sc:
                if o[0] != "close":
                    nctx = max(nctx, o[1] + 1)
        for op in case["ops"]:
            if op[0] in ("next", "cancel"):
                nctx = max(nctx, op[1] + 1)
        evs = []
        for e in obs["obs"]:
            k = e[0]
            if k == "call-send":
                evs.append("LCallSend %d %d" % (e[1], e[2]))
            elif k == "ret-send":
                evs.append("LRetSend %d %s" % (e[1], self.RES.get(e[2], "RSErr")))
            elif k == "call-trysend":
                evs.append("LCallTrySend %d %d" % (e[1], e[2]))
            elif k == "ret-trysend":
                evs.append("LRetTrySend %d %s %s" % (e[1], "true" if e[2] else "false", self.RES.get(e[3], "RSErr")))
            elif k == "call-close":
                evs.append("LCallClose %d %s" % (e[1], "true" if e[2] else "false"))
            elif k == "ret-close":
                evs.append("LRetClose %d" % e[1])
            elif k == "call-next":
                evs.append("LCallNext %d" % e[1])
            elif k == "ret-next":
                if e[1] == "val":
                    evs.append("LRetNext (VVal (%d, %d))" % (e[2], e[3]))
                else:
                    evs.append("LRetNext %s" % {"end": "VEnd", "serr": "VErr", "ctx": "VCtx"}.get(e[1], "VErr"))
            elif k == "call-rclose":
                evs.append("LCallRClose")
            elif k == "ret-rclose":
                evs.append("LRetRClose")
            elif k == "cancel":
                evs.append("LCancel %d" % e[1])
            elif k == "quiesce":
                if e[1]:
                    evs.append("LQuiesce")
        return "(%d, %d, %d, [%s])" % (case["cfg"]["buf"], nt, nctx, "; ".join(evs))

    # ------------------------------------------------------------------ direct oracle
    def oracle(self, case, obs):
        """The clauses of C10 evaluated on the recorded history alone (no model)."""
        # a scenario that found no structural quiescence within the time limit stops there: its history is a prefix,
        # the clauses about values and results still apply to it (those about blocked calls need a quiescence event)
        evs = obs["obs"]
        bufsize = case["cfg"]["buf"]
        fails = []

        def bad(sig, what):
            fails.append((sig, what))

        callidx = {}
        sends = {}            # (t, i) -> {"kind", "ctx", "call", "ret", "res", "ok"}
        pending = {}          # t -> key of the Send/TrySend in flight
        cancelled = {}        # ctx -> index of the cancel event
        close_call = close_ret = close_err = None
        close_pending = False
        rclose_call = None
        acked = []            # keys whose Send returned nil / TrySend (true, nil) before call-close was logged
        entered = 0           # successful sends so far (exact only while the sender is open)
        received = []         # keys in the order returned by Next
        recvset = set()
        last_from = {}
        nxt = None            # (ctx, index of call-next) of the pending Next
        sticky = None         # index of the ret-next from which the end must keep being reported
        for k, e in enumerate(evs):
            kind = e[0]
            if kind in ("call-send", "call-trysend"):
                t = e[1]
                i = callidx.get(t, 0)
                callidx[t] = i + 1
                sends[(t, i)] = {"kind": kind[5:], "ctx": e[2], "call": k, "ret": None, "res": None, "ok": None}
                pending[t] = (t, i)
            elif kind in ("ret-send", "ret-trysend"):
                t = e[1]
                key = pending.pop(t, None)
                if key is None:
                    continue
                s = sends[key]
                s["ret"] = k
                if kind == "ret-send":
                    s["res"], s["ok"] = e[2], e[2] == "nil"
                else:
                    s["res"], s["ok"] = e[3], bool(e[2])
                    if e[2] and e[3] != "nil":
                        bad("trysend-true-with-error", "event %d: TrySend of thread %d returned (true, %s)" % (k, t, e[3]))
                res = s["res"]
                if res == "ctx" and s["ctx"] not in cancelled:
                    bad("send-spurious-ctx-error", "event %d: %s of thread %d returned the context error but context %d was never cancelled" % (k, s["kind"], t, s["ctx"]))
                elif res == "closed" and rclose_call is None:
                    bad("send-spurious-closed-pipe", "event %d: %s of thread %d returned ErrClosedPipe but the receiver was never closed" % (k, s["kind"], t))
                elif res == "serr" and not (close_call is not None and close_err):
                    bad("send-spurious-sender-error", "event %d: %s of thread %d returned the sender's error but Close(err) was not called" % (k, s["kind"], t))
                elif res not in ("nil", "ctx", "closed", "serr"):
                    bad("send-unknown-error", "event %d: %s of thread %d returned %s" % (k, s["kind"], t, res))
                if s["ok"] and res == "nil":
                    entered += 1
                    if close_call is None:
                        acked.append(key)
                if key in recvset and not (s["ok"] and res == "nil"):
                    bad("received-value-of-failed-send", "event %d: value %r was delivered although its %s reported failure (%s)" % (k, key, s["kind"], res))
            elif kind == "call-close":
                t = e[1]
                callidx[t] = callidx.get(t, 0) + 1
                close_call, close_err, close_pending = k, e[2], True
            elif kind == "ret-close":
                close_ret, close_pending = k, False
            elif kind == "call-rclose":
                rclose_call = k
            elif kind == "cancel":
                cancelled.setdefault(e[1], k)
            elif kind == "call-next":
                nxt = (e[1], k)
            elif kind == "ret-next":
                what = e[1]
                ncall = nxt
                nxt = None
                if what == "val":
                    key = (e[2], e[3])
                    if key not in sends:
                        bad("received-unsent-value", "event %d: Next returned %r which no Send call had been given" % (k, key))
                    else:
                        s = sends[key]
                        if s["ret"] is not None and not (s["ok"] and s["res"] == "nil"):
                            bad("received-value-of-failed-send", "event %d: value %r was delivered although its %s reported failure (%s)" % (k, key, s["kind"], s["res"]))
                    if key in recvset:
                        bad("duplicate-value", "event %d: Next returned %r a second time" % (k, key))
                    if key[0] in last_from and last_from[key[0]] >= key[1]:
                        bad("per-sender-order", "event %d: Next returned %r after %r of the same sender" % (k, key, (key[0], last_from[key[0]])))
                    last_from[key[0]] = max(key[1], last_from.get(key[0], -1))
                    received.append(key)
                    recvset.add(key)
                    if sticky is not None:
                        bad("value-after-end", "event %d: Next returned %r after the end/error had been reported (event %d) with no Send in flight" % (k, key, sticky))
                elif what in ("end", "serr"):
                    if close_call is None:
                        bad("end-without-close", "event %d: Next reported %s but PipeSender.Close was never called" % (k, what))
                    elif (what == "serr") != bool(close_err):
                        bad("wrong-end-kind", "event %d: Next reported %s after Close(%s)" % (k, what, "err" if close_err else "nil"))
                    missing = [key for key in acked if key not in recvset]
                    if missing:
                        bad("end-overtakes-sent-values",
                            "event %d: Next reported %s although values %r, whose Send had returned nil before Close was called, were never delivered (buffer size %d)"
                            % (k, what, missing, bufsize))
                    if sticky is None and ncall is not None:
                        # a Send that may have passed its senderDone poll before the close and may still be undecided
                        # when this Next looked at the channel
                        dangerous = [key for key, s in sends.items()
                                     if (close_ret is None or s["call"] < close_ret) and (s["ret"] is None or s["ret"] > ncall[1])]
                        if not dangerous:
                            sticky = k
                elif what == "ctx":
                    if ncall is not None and ncall[0] not in cancelled:
                        bad("next-spurious-ctx-error", "event %d: Next returned the context error but context %d was never cancelled" % (k, ncall[0]))
                else:
                    bad("next-unknown-error", "event %d: Next returned %s" % (k, what))
            elif kind == "quiesce" and e[1]:
                # nothing can move: every pending call must be blocked for a documented reason
                for t, key in sorted(pending.items()):
                    s = sends[key]
                    if s["kind"] == "trysend":
                        bad("trysend-blocked", "quiescence at event %d: TrySend of thread %d has not returned" % (k, t))
                        continue
                    if rclose_call is not None:
                        bad("send-stuck-after-receiver-close", "quiescence at event %d: Send of thread %d still blocked although the receiver was closed" % (k, t))
                    elif close_ret is not None:
                        bad("send-stuck-after-sender-close", "quiescence at event %d: Send of thread %d still blocked although PipeSender.Close returned" % (k, t))
                    elif s["ctx"] in cancelled:
                        bad("send-stuck-after-cancel", "quiescence at event %d: Send of thread %d still blocked although its context %d was cancelled" % (k, t, s["ctx"]))
                    elif nxt is not None:
                        bad("send-stuck-with-receiver-waiting", "quiescence at event %d: Send of thread %d and a Next are both blocked" % (k, t))
                    elif close_call is None and entered - len(received) < bufsize:
                        bad("send-stuck-with-room", "quiescence at event %d: Send of thread %d blocked with %d of %d buffer slots used" % (k, t, entered - len(received), bufsize))
                if close_pending:
                    bad("close-blocked", "quiescence at event %d: PipeSender.Close has not returned" % k)
                if nxt is not None:
                    if nxt[0] in cancelled:
                        bad("next-stuck-after-cancel", "quiescence at event %d: Next still blocked although its context %d was cancelled" % (k, nxt[0]))
                    elif close_ret is not None:
                        bad("next-stuck-after-sender-close", "quiescence at event %d: Next still blocked although PipeSender.Close returned" % k)
                    elif close_call is None and entered - len(received) > 0:
                        bad("next-stuck-with-buffered-value", "quiescence at event %d: Next blocked with %d value(s) in the pipe" % (k, entered - len(received)))
        return fails

    # ------------------------------------------------------------------ statistics
    def stats(self, case, obs, acc):
        d = acc.setdefault("scenarios", {"buf": {}, "threads": {}, "closer": {}, "next_results": {}, "send_results": {}})
        d["buf"][str(case["cfg"]["buf"])] = d["buf"].get(str(case["cfg"]["buf"]), 0) + 1
        nt = str(len(_threads(case)))
        d["threads"][nt] = d["threads"].get(nt, 0) + 1
        cl = "none"
        for sc in _threads(case):
            for o in sc:
                if o[0] == "close":
                    cl = "close(err)" if o[1] else "close(nil)"
        d["closer"][cl] = d["closer"].get(cl, 0) + 1
        pend_send = {}
        pend_next = False
        for e in obs["obs"]:
            if e[0] == "ret-next":
                d["next_results"][e[1]] = d["next_results"].get(e[1], 0) + 1
                pend_next = False
            elif e[0] == "call-next":
                pend_next = True
            elif e[0] == "ret-send":
                d["send_results"][e[2]] = d["send_results"].get(e[2], 0) + 1
                pend_send.pop(e[1], None)
            elif e[0] == "ret-trysend":
                key = "try:%s:%s" % (e[2], e[3])
                d["send_results"][key] = d["send_results"].get(key, 0) + 1
            elif e[0] == "call-send":
                pend_send[e[1]] = True
            elif e[0] == "quiesce" and e[1]:
                if pend_send:
                    acc["quiescence_points_with_parked_send"] = acc.get("quiescence_points_with_parked_send", 0) + 1
                if pend_next:
                    acc["quiescence_points_with_parked_next"] = acc.get("quiescence_points_with_parked_next", 0) + 1
        acc["inconclusive_no_quiescence"] = acc.get("inconclusive_no_quiescence", 0) + (0 if obs.get("aux", {}).get("quiescent", True) else 1)
        acc["cleanup_leaks"] = acc.get("cleanup_leaks", 0) + (1 if obs.get("aux", {}).get("cleanup_leak") else 0)
        acc["events_total"] = acc.get("events_total", 0) + len(obs["obs"])

    def nontrivial(self, case, obs):
        nsend = sum(1 for e in obs["obs"] if e[0] in ("call-send", "call-trysend"))
        nnext = sum(1 for e in obs["obs"] if e[0] == "call-next")
        return nsend >= 1 and nnext >= 1
