"""C18 — Watchable/Future/Lazy: the latest value is always seen; xsync.Map = sync.Map projected to V."""
import random

import vlib
from watch_common import CONC_SPECS, XMapSpec
from scale_common import ScaleSpec

PROP_FILES = ["C18"]
MODULE = "harness_watch"
EXE = "runner-watch"
SPECS = {cls().component: (cls(), MODULE, EXE) for cls in CONC_SPECS + [XMapSpec]}
SPECS["scale"] = (ScaleSpec(['c18-extras']), "harness", "runner")


def race_tier(ctx):
    """Thorough tier: the concurrent scenarios once more under the Go race detector."""
    ok, out, exe = vlib.build_runner(race=True, module=MODULE, exe_name=EXE)
    part = {}
    ctx.coverage.setdefault("parts", {})["race-detector"] = part
    if not ok:
        ctx.notes.append("race-detector build failed: " + out[-500:])
        part["evaluations"] = 0
        return
    total = 0
    for cls in CONC_SPECS:
        spec = cls()
        cases = spec.gen(random.Random(ctx.seed * 7 + 13), "quick", 2.0)
        for i, c in enumerate(cases):
            c["id"] = i
        obs, err = vlib.run_runner(exe, spec.component, cases, timeout=900)
        if err is not None:
            sig = "race:data-race" if "DATA RACE" in err else "race:runner-crash"
            k = len(obs or [])
            ctx.violation(sig, "%s scenarios under the race detector: %s" % (spec.component, err[-1500:]),
                          {"component": spec.component, "case": cases[k] if k < len(cases) else None, "error": err[-4000:],
                           "how": "build/%s-race %s < case" % (EXE, spec.component)}, failing_input=k < len(cases))
            continue
        for c, o in zip(cases, obs):
            r = spec.oracle(c, o)
            if r:
                ctx.violation("%s:%s" % (spec.component, r[0][0]), r[0][1] + " (race-detector build)",
                              {"component": spec.component, "case": c, "impl_observations": o.get("obs")})
                break
        total += len(cases)
    part["evaluations"] = total
    part["distinct_nontrivial"] = 0
    part["data_races_reported"] = 0 if not any(v["signature"].startswith("race:") for v in ctx.violations) else 1


def run(ctx):
    proofs_ok = ctx.check_proofs(PROP_FILES, extra_targets=["theories/Conc/Watch.vo", "theories/Conc/Future.vo", "theories/XSyncMap/Corr.vo"])
    ok, out, exe = vlib.build_runner(module=MODULE, exe_name=EXE)
    if not ok:
        ctx.violation("harness-build", "the harness does not build against the current tree: " + out[-1500:], {"build_output": out[-4000:]}, failing_input=False)
        return ctx.finish()
    for cls in CONC_SPECS + [XMapSpec]:
        spec = cls()
        vlib.seq_differential(ctx, spec, exe, proofs_ok, tag=spec.component)
        if ctx.tier == "thorough" and cls is not XMapSpec:
            vlib.patience_part(ctx, spec, exe, proofs_ok, tag=spec.component, ncases=16)
    okS, outS, exeS = vlib.build_runner()
    if okS:
        vlib.seq_differential(ctx, ScaleSpec(['c18-extras']), exeS, proofs_ok, tag="scale")
    else:
        ctx.violation("harness-build", "the harness does not build against the current tree: " + outS[-1500:], {"build_output": outS[-4000:]}, failing_input=False)
    if ctx.tier == "thorough":
        race_tier(ctx)
    vlib.merge_parts(ctx, "part A: cases = controller scripts over a fixed set of goroutines (programs of Set/Value calls and observer loops behind common start gates; "
                     "Fill racing Wait/WaitContext and cancel; concurrent first calls of a Lazy whose f is gated and counted) run against the real code; each recorded history "
                     "must be accepted by the LTS model (some schedule produces it; every quiescence point is a model state with nothing enabled; watch: matcher on canonical "
                     "states, cross-checked against the unreduced matcher on the smaller scenarios) and satisfy the history oracle; "
                     "part B: cases = operation sequences run on xsync.Map[int,V] and on a raw sync.Map for V = int and V = error (nil and non-nil), every method on absent, "
                     "present and zero/nil-valued keys; both must agree exactly and equal the Coq models; distinct = hash of script+configuration; "
                     "non-trivial = (watch) >= 1 Set and >= 1 Value result, (future) a waiter and a Fill or cancel, (lazy) >= 2 calls, (xmap) >= 3 ops")
    ctx.assumptions.append("Lazy = sync.OnceValue is modelled by its documented specification (f runs once; other callers block until it completes); the standard library's implementation is trusted")
    ctx.assumptions.append("sync.Map is modelled by its documented sequential behaviour; the real sync.Map is run side by side and compared with that model on every case")
    def deep():
        # only when an obligation (e.g. the source census) no longer checks: patience mode, bigger storms
        for cls in CONC_SPECS:
            vlib.patience_part(ctx, cls(), exe, proofs_ok, tag=cls().component, ncases=16, ms=6500)
    vlib.handle_broken_proof(ctx, deep if ctx.tier == "quick" else None)
    ctx.finish(trusted_extra=["harness_watch (separate Go module: event log, gates, quiescence detection, channel identities) and props/watch_common.py (generators, Coq printing, history oracles)"])
