"""C09 — every stream handed to the library is closed exactly once, never used after."""
import vlib
from pipes_common import PipeSpec, SampleStreamSpec

SPECS = {"stream-close": (PipeSpec("stream", False), "harness", "runner"), "stream-close-faults": (PipeSpec("stream", True), "harness", "runner"), "samplestream": (SampleStreamSpec(), "harness", "runner"),
         "stream-close-panics": (PipeSpec("stream", True, panics=True), "harness", "runner")}

PROP_FILES = ["C09"]


def run(ctx):
    proofs_ok = ctx.check_proofs(PROP_FILES, extra_targets=["theories/Iter/Corr.vo"])
    ok, out, exe = vlib.build_runner()
    if not ok:
        ctx.violation("harness-build", "the harness does not build against the current tree: " + out[-1500:], {"build_output": out[-4000:]}, failing_input=False)
        return ctx.finish()
    vlib.seq_differential(ctx, PipeSpec("stream", faults=False), exe, proofs_ok, tag="stream-close", scale=0.6)
    vlib.seq_differential(ctx, PipeSpec("stream", faults=True), exe, proofs_ok, tag="stream-close-faults", scale=0.6)
    # callbacks, reduction functions and sources that panic (the caller recovers): reducers still close what they own
    vlib.seq_differential(ctx, PipeSpec("stream", faults=True, panics=True), exe, proofs_ok, tag="stream-close-panics", scale=0.6)
    vlib.seq_differential(ctx, SampleStreamSpec(), exe, proofs_ok, tag="samplestream")
    vlib.merge_parts(ctx, "cases = random stream pipelines; the consumer stops after 0..len+3 Next calls and closes, or runs a reducer, with and without faults, with callbacks / reduction functions / sources that panic (recovered by the caller); "
                     "observed: the Next/Close event log of every instrumented source; distinct = hash of (pipeline, program); non-trivial = at least one combinator and one step")
    vlib.handle_broken_proof(ctx)
    ctx.finish()
