"""C09 — every stream handed to the library is closed exactly once, never used after."""
import vlib
from pipes_common import PipeSpec, SampleStreamSpec
from batch_common import BatchSpec
from merge_common import SMergeSpec
from parmap_common import MapStreamSpec

SPECS = {"stream-close": (PipeSpec("stream", False), "harness", "runner"), "stream-close-faults": (PipeSpec("stream", True), "harness", "runner"), "samplestream": (SampleStreamSpec(), "harness", "runner"),
         "stream-close-panics": (PipeSpec("stream", True, panics=True), "harness", "runner")}

# goroutine-backed owners of streams: the scenario families of C11, C12 and C14 (their oracles include "the source is closed
# exactly once, before Close / the last Next returns, and never used afterwards"), at a reduced size
CONC = [("batch", BatchSpec, "harness_batch", "runner-batch"), ("smerge", SMergeSpec, "harness_merge", "runner-merge"),
        ("mapstream", MapStreamSpec, "harness_parmap", "runner-parmap")]
for _t, _cls, _m, _e in CONC:
    SPECS[_t] = (_cls(), _m, _e)

PROP_FILES = ["C09"]


def run(ctx):
    proofs_ok = ctx.check_proofs(PROP_FILES, extra_targets=["theories/Iter/Corr.vo", "theories/Conc/BatchMatcher.vo", "theories/Conc/MergeMatcher.vo",
                                                            "theories/Conc/ParMapMatcherComplete.vo"])
    ok, out, exe = vlib.build_runner()
    if not ok:
        ctx.violation("harness-build", "the harness does not build against the current tree: " + out[-1500:], {"build_output": out[-4000:]}, failing_input=False)
        return ctx.finish()
    vlib.seq_differential(ctx, PipeSpec("stream", faults=False), exe, proofs_ok, tag="stream-close", scale=0.6)
    vlib.seq_differential(ctx, PipeSpec("stream", faults=True), exe, proofs_ok, tag="stream-close-faults", scale=0.6)
    # callbacks, reduction functions and sources that panic (the caller recovers): reducers still close what they own
    vlib.seq_differential(ctx, PipeSpec("stream", faults=True, panics=True), exe, proofs_ok, tag="stream-close-panics", scale=0.6)
    vlib.seq_differential(ctx, SampleStreamSpec(), exe, proofs_ok, tag="samplestream")
    for tag, cls, module, exe_name in CONC:
        okc, outc, exec_ = vlib.build_runner(module=module, exe_name=exe_name)
        if not okc:
            ctx.violation("harness-build", "the harness does not build against the current tree: " + outc[-1500:], {"build_output": outc[-4000:]}, failing_input=False)
            continue
        vlib.seq_differential(ctx, cls(), exec_, proofs_ok, tag=tag, scale=0.4)
    vlib.merge_parts(ctx, "cases = random stream pipelines; the consumer stops after 0..len+3 Next calls and closes, or runs a reducer, with and without faults, with callbacks / reduction functions / sources that panic (recovered by the caller); "
                     "observed: the Next/Close event log of every instrumented source; distinct = hash of (pipeline, program); non-trivial = at least one combinator and one step; "
                     "parts batch / smerge / mapstream: the controller-script scenarios of C11, C12, C14 (goroutine-backed streams: every timing of Close "
                     "relative to the background work), judged by those models and by their source-close oracles")
    vlib.handle_broken_proof(ctx)
    ctx.finish()
