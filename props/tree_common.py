"""tree.Map / tree.Set (C01, C02, C03): generators, Coq printing per Tree/Hist.v, direct oracles."""
import bisect
from vlib import SeqSpec, z, zlist

BRANCH = 16          # only used to steer generators towards node-capacity boundaries


def bnd_t(b):
    if b[0] == "inc":
        return "(BInc %s)" % z(b[1])
    if b[0] == "exc":
        return "(BExc %s)" % z(b[1])
    return "BUnb"


def op_t(op):
    k = op[0]
    if k == "put":
        return "TPut %s %s" % (z(op[1]), z(op[2]))
    if k == "del":
        return "TDel %s" % z(op[1])
    if k == "get":
        return "TGet %s" % z(op[1])
    if k == "contains":
        return "TContains %s" % z(op[1])
    if k == "len":
        return "TLen"
    if k == "first":
        return "TFirst"
    if k == "last":
        return "TLast"
    if k == "range":
        return "TRange %s %s" % (bnd_t(op[1]), bnd_t(op[2]))
    if k == "rangerev":
        return "TRangeRev %s %s" % (bnd_t(op[1]), bnd_t(op[2]))
    if k == "iternew":
        return "TIterNew %s %s %s" % ("true" if op[1] else "false", bnd_t(op[2]), bnd_t(op[3]))
    if k == "iternext":
        return "TIterNext %d%%nat" % op[1]
    if k == "getcost":
        return "TGetCost %s" % z(op[1])
    if k == "shape":
        return "TShape"
    raise ValueError(k)


def out_t(o):
    k = o[0]
    if k == "unit":
        return "OUnit"
    if k == "int":
        return "OInt %s" % z(o[1])
    if k == "bool":
        return "OBool %s" % ("true" if o[1] else "false")
    if k == "pair":
        return "OPair %s %s" % (z(o[1]), z(o[2]))
    if k == "list":
        return "OList [%s]" % "; ".join("(%s, %s)" % (z(a), z(b)) for a, b in o[1])
    if k == "end":
        return "OEnd"
    if k == "panic":
        return "OPanic"
    if k == "shape":
        return "OShape %s" % zlist(o[1])
    return "OBad"


def cls_of(mode):
    if mode in (0, 3):
        return lambda k: k
    if mode == 1:
        return lambda k: -k
    return lambda k: k // 4         # keys are >= 0


class Ideal:
    """Ideal sorted map keyed by equivalence class, with the abstract re-seek iterators (DESIGN C02 layer S)."""

    def __init__(self, mode):
        self.cls = cls_of(mode)
        self.m = {}            # class -> [stored key, value]
        self.keys = []         # sorted classes
        self.its = []

    def put(self, k, v):
        c = self.cls(k)
        if c in self.m:
            self.m[c][1] = v
        else:
            self.m[c] = [k, v]
            bisect.insort(self.keys, c)

    def delete(self, k):
        c = self.cls(k)
        if c in self.m:
            del self.m[c]
            self.keys.pop(bisect.bisect_left(self.keys, c))

    def in_lo(self, c, b):
        return b[0] == "unb" or (c >= self.cls(b[1]) if b[0] == "inc" else c > self.cls(b[1]))

    def in_hi(self, c, b):
        return b[0] == "unb" or (c <= self.cls(b[1]) if b[0] == "inc" else c < self.cls(b[1]))

    def range(self, lo, hi, rev):
        l = [c for c in self.keys if self.in_lo(c, lo) and self.in_hi(c, hi)]
        if rev:
            l.reverse()
        return [(c, self.m[c][1]) for c in l]

    def iter_new(self, rev, lo, hi):
        if not rev:
            cand = [c for c in self.keys if self.in_lo(c, lo)]
            pos = cand[0] if cand else None
        else:
            cand = [c for c in self.keys if self.in_hi(c, hi)]
            pos = cand[-1] if cand else None
        self.its.append({"rev": rev, "pos": pos, "lo": lo, "hi": hi, "cut": False, "yields": [], "ended": False})

    def iter_next(self, j):
        """returns None for end, else (class, value)"""
        it = self.its[j]
        if it["cut"] or it["pos"] is None:
            return None
        if not it["rev"]:
            i = bisect.bisect_left(self.keys, it["pos"])
            f = self.keys[i] if i < len(self.keys) else None
            nxt = self.keys[i + 1] if i + 1 < len(self.keys) else None
        else:
            i = bisect.bisect_right(self.keys, it["pos"]) - 1
            f = self.keys[i] if i >= 0 else None
            nxt = self.keys[i - 1] if i - 1 >= 0 else None
        if f is None:
            it["pos"] = None
            return None
        it["pos"] = nxt
        ok = self.in_hi(f, it["hi"]) if not it["rev"] else self.in_lo(f, it["lo"])
        if not ok:
            it["cut"] = True
            return None
        return (f, self.m[f][1])


class TreeSpec(SeqSpec):
    component = "tree"
    imports = "From Juniper Require Import Common.Base Tree.Bound Tree.BTree Tree.Cursor Tree.SMap Tree.AIter Tree.Hist Tree.Corr."
    informational = {"shape", "cost"}
    preamble = ("Definition strip_cost (c : case) : case := let '(m, ops, obs) := c in\n"
                "  let keep := filter (fun p => negb (is_cost (fst p))) (combine ops obs) in (m, map fst keep, map snd keep).\n"
                "Definition check_M_nocost (c : case) : bool := check_M (strip_cost c).\n"
                "Definition check_cost (c : case) : bool := check_M c.")

    def __init__(self, flavour):
        """flavour: 'c01' sequential calls, 'c02' live iterators under mutation, 'c03' adversarial fills/drains"""
        self.flavour = flavour
        # M: the B-tree model, exact, on everything observable through the API (comparator-call counts are
        # compared only informationally: a different but valid search inside a node is not a violation)
        self.checkers = {"M": "check_M_nocost", "S": "check_S", "shape": "check_shape", "cost": "check_cost"}

    # ------------------------------------------------------------ generators
    def rbound(self, rng, K):
        k = rng.choice(["inc", "exc", "unb"])
        return [k] if k == "unb" else [k, rng.choice([0, K - 1, K + 3, rng.randrange(K), rng.randrange(K)])]

    def fill(self, rng, n, order, coarse):
        step = 4 if coarse else 1
        ks = [i * step for i in range(n)]
        if order == "desc":
            ks.reverse()
        elif order == "saw":
            ks = [ks[i // 2] if i % 2 == 0 else ks[n - 1 - i // 2] for i in range(n)]
        elif order == "rand":
            rng.shuffle(ks)
        return ks

    def gen_one(self, rng, tier, mode, is_set):
        coarse = mode in (2, 4)
        ops = []
        fl = self.flavour
        big = tier == "thorough"
        sizes = [0, 3, 15, 16, 17, 40, 127, 128, 129, 255, 256] + ([600, 2047, 2048] if big else [])
        n = rng.choice(sizes if fl == "c03" else [0, 3, 15, 16, 17, 40, 130, 260] + ([1200] if big else []))
        order = rng.choice(["asc", "desc", "saw", "rand"])
        present = []
        # c03: in a third of the cases only even keys are stored, so that lookups also fall strictly between two stored keys
        stride = 2 if (fl == "c03" and not coarse and rng.random() < 0.35) else 1
        for k in self.fill(rng, n, order, coarse):
            k *= stride
            ops.append(["put", k + (rng.randrange(4) if coarse else 0), 0 if is_set else rng.randrange(1, 10 ** 6)])
            present.append(k)
        K = max(8, (n + 8) * (4 if coarse else 1)) * stride
        nops = rng.choice([10, 40, 120] if tier == "quick" else [40, 150, 500])
        nit = 0
        if fl == "c03":
            ks0 = sorted(present)
            for k in (ks0[-1:] + ks0[-2:-1] + ks0[:1] + ks0[14:15] + ks0[15:16]):
                for d in (-1, 0, 1):
                    ops.append(["getcost", max(0, k + d)])
            # targeted drains: delete one leaf's worth, the leftmost/rightmost path, every other key, everything
            style = rng.choice(["left", "right", "middle", "everyother", "all", "random", "refill"])
            ks = sorted(present)
            if style == "left":
                victims = ks[:rng.choice([8, 16, 40, len(ks)])]
            elif style == "right":
                victims = ks[::-1][:rng.choice([8, 16, 40, len(ks)])]
            elif style == "middle":
                mid = len(ks) // 2
                victims = ks[max(0, mid - 20):mid + 20]
            elif style == "everyother":
                victims = ks[::2]
            elif style == "all":
                victims = ks if rng.random() < 0.5 else ks[::-1]
            else:
                victims = [rng.choice(ks) for _ in range(min(len(ks), nops))] if ks else []
            for i, k in enumerate(victims):
                ops.append(["del", k])
                if rng.random() < 0.1:
                    ops.append(["getcost", rng.randrange(K)])
                if style == "refill" and rng.random() < 0.5:
                    ops.append(["put", rng.randrange(K), 0 if is_set else rng.randrange(1, 1000)])
            for _ in range(10):
                ops.append(["getcost", rng.randrange(K)])
            ops.append(["len"])
            ops.append(["shape"])
            return ops
        for _ in range(nops):
            r = rng.random()
            if fl == "c02" and (nit == 0 or r < 0.06):
                ops.append(["iternew", rng.random() < 0.5, self.rbound(rng, K), self.rbound(rng, K)])
                nit += 1
            elif fl == "c02" and r < 0.5:
                ops.append(["iternext", rng.randrange(nit)])
            elif fl == "c02":
                # mutate near some key (the oracle-side iterator positions are unknown here: use keys near recent ones)
                base = rng.randrange(K)
                if present and rng.random() < 0.7:
                    base = rng.choice(present[-8:] + present[:8]) + rng.randrange(-6, 7) * (4 if coarse else 1)
                k = max(0, base)
                if rng.random() < 0.5:
                    ops.append(["put", k, 0 if is_set else rng.randrange(1, 10 ** 6)])
                    present.append(k)
                else:
                    ops.append(["del", k])
            elif fl == "c01" and r < 0.04:
                # several ranges alive at the same time (no mutation in between): each must yield exactly its own
                # entries whatever other iterators of the same collection (or of a copy of the value) are doing
                js = []
                for _ in range(rng.choice([2, 2, 3])):
                    ops.append(["iternew", rng.random() < 0.6, self.rbound(rng, K), self.rbound(rng, K)])
                    js.append(nit)
                    nit += 1
                for _ in range(rng.choice([3, 8, 30])):
                    for j in js:
                        ops.append(["iternext", j])
            else:
                k = rng.randrange(K)
                c = rng.choices(["put", "del", "get", "contains", "len", "first", "last", "range", "rangerev"],
                                [5, 4, 2, 2, 0.5, 1, 1, 1.2, 1.2])[0]
                if c == "put":
                    ops.append([c, k, 0 if is_set else rng.randrange(1, 10 ** 6)])
                elif c in ("del", "contains"):
                    ops.append([c, k])
                elif c == "get":
                    ops.append(["contains", k] if is_set else [c, k])
                elif c in ("range", "rangerev"):
                    ops.append([c, self.rbound(rng, K), self.rbound(rng, K)])
                else:
                    ops.append([c])
        if fl == "c02" and nit > 0 and rng.random() < 0.3:
            # the tree is EMPTIED between two Next calls while iterators are parked on keys: every one of them must
            # report exhaustion (and keep doing so); then keys come back and the iterators are stepped again
            victims = sorted(set(present), reverse=rng.random() < 0.5)
            for k in victims:
                for d in (range(4) if coarse else (0,)):
                    ops.append(["del", k + d])
            ops.append(["len"])
            for j in range(nit):
                for _ in range(2):
                    ops.append(["iternext", j])
            if rng.random() < 0.5:
                for _ in range(rng.choice([1, 3, 20])):
                    ops.append(["put", rng.randrange(K), 0 if is_set else rng.randrange(1, 10 ** 6)])
        if fl == "c02":
            # drain every iterator at the end (sticky end is observed by extra calls)
            for j in range(nit):
                for _ in range(rng.choice([1, 3, 8])):
                    ops.append(["iternext", j])
        ops.append(["shape"])
        return ops

    def gen(self, rng, tier, scale):
        base = {"c01": 260, "c02": 200, "c03": 120}[self.flavour]
        n = int((base if tier == "quick" else base * 25) * scale)
        cases = []
        for i in range(n):
            mode = i % 5
            is_set = (i // 5) % 4 == 3
            # cmpscale: compare results stretched to MinInt/MaxInt (1) or to magnitudes >= 2^33 (2); only the sign is contractual
            cases.append({"component": "tree", "cfg": {"mode": mode, "set": is_set, "cmpscale": rng.choice([0, 0, 1, 2])},
                          "ops": self.gen_one(rng, tier, mode, is_set)})
        return cases

    def coq_case(self, case, obs):
        return "(%s,\n [%s],\n [%s])" % (z(case["cfg"]["mode"]), "; ".join(op_t(o) for o in case["ops"]),
                                         "; ".join(out_t(o) for o in obs["obs"]))

    # ------------------------------------------------------------ oracles
    def oracle(self, case, obs):
        mode = case["cfg"]["mode"]
        m = Ideal(mode)
        cls = m.cls
        fails = []
        less_constructed = mode in (3, 4)
        raw = {r[0]: r for r in (obs.get("raw") or [])}
        for i, (op, ob) in enumerate(zip(case["ops"], obs["obs"])):
            k = op[0]
            if ob[0] == "panic":
                fails.append(("panic:" + k, "op %d %r panicked" % (i, op)))
                break
            if ob[0] == "bad":
                if k == "iternext" and op[1] >= len(m.its):
                    continue
                fails.append(("spin-or-bad:" + k, "op %d %r did not finish within its step budget" % (i, op)))
                break
            if k == "put":
                m.put(op[1], op[2])
            elif k == "del":
                m.delete(op[1])
            elif k == "get":
                c = cls(op[1])
                exp = m.m[c][1] if c in m.m else 0
                if ob != ["int", exp]:
                    fails.append(("get", "op %d Get(%d) = %r, ideal map gives %r" % (i, op[1], ob, exp)))
            elif k == "contains":
                if ob != ["bool", cls(op[1]) in m.m]:
                    fails.append(("contains", "op %d Contains(%d) = %r" % (i, op[1], ob)))
            elif k == "len":
                if ob != ["int", len(m.keys)]:
                    fails.append(("len", "op %d Len = %r, ideal map has %d keys" % (i, ob, len(m.keys))))
            elif k in ("first", "last"):
                if not m.keys:
                    exp = ["pair", 0, 0]
                    if ob != exp:
                        fails.append((k, "op %d on the empty map returned %r" % (i, ob)))
                else:
                    c = m.keys[0] if k == "first" else m.keys[-1]
                    if ob[0] != "pair" or cls(ob[1]) != c or ob[2] != m.m[c][1]:
                        fails.append((k, "op %d %s = %r, ideal extreme entry is class %r value %r" % (i, k, ob, c, m.m[c][1])))
            elif k in ("range", "rangerev"):
                exp = m.range(op[1], op[2], k == "rangerev")
                got = [(cls(a), b) for a, b in ob[1]] if ob[0] == "list" else None
                if got != exp:
                    fails.append(("range", "op %d %r yielded %r, ideal map gives %r" % (i, op, ob, exp)))
            elif k == "iternew":
                m.iter_new(op[1], op[2], op[3])
            elif k == "iternext":
                j = op[1]
                it = m.its[j]
                exp = m.iter_next(j)
                # clause-level checks (C02), independent of the abstract iterator
                if ob[0] == "pair":
                    c = cls(ob[1])
                    if it["ended"]:
                        fails.append(("iter-not-sticky", "op %d: iterator %d yielded %r after reporting exhaustion" % (i, j, ob)))
                    if it["yields"] and not (c > it["yields"][-1] if not it["rev"] else c < it["yields"][-1]):
                        fails.append(("iter-not-monotone", "op %d: iterator %d yielded class %r after %r" % (i, j, c, it["yields"][-1])))
                    if not (m.in_lo(c, it["lo"]) and m.in_hi(c, it["hi"])):
                        fails.append(("iter-out-of-bounds", "op %d: iterator %d yielded %r outside its bounds" % (i, j, ob)))
                    if c not in m.m or m.m[c][1] != ob[2]:
                        fails.append(("iter-stale", "op %d: iterator %d yielded %r; the map holds %r for that key" % (i, j, ob, m.m.get(c))))
                    it["yields"].append(c)
                elif ob[0] == "end":
                    it["ended"] = True
                got = (cls(ob[1]), ob[2]) if ob[0] == "pair" else None
                if got != exp and not fails:
                    fails.append(("iter-mismatch", "op %d: iterator %d returned %r, the abstract re-seek iterator gives %r" % (i, j, ob, exp)))
            elif k == "getcost":
                r = [x for x in (obs.get("raw") or []) if x[0] <= i]
                height = r[-1][2] if r else 1
                per = (BRANCH - 1) * (2 if less_constructed else 1)
                if ob[0] == "int" and ob[1] > per * max(1, height):
                    fails.append(("lookup-cost", "op %d: a lookup made %d comparator calls; bound is %d per level x %d levels" % (i, ob[1], per, height)))
                # per level (the comparator's arguments are attributed to the level their stored key lives on)
                if ob[0] == "int" and len(ob) > 3 and ob[3] == 0 and ob[2] > per:
                    fails.append(("lookup-cost-per-level", "op %d: the lookup of %r made %d comparator calls against the keys of ONE level; the bound is %d" % (i, op[1], ob[2], per)))
            if i in raw:
                _, err, height, nkeys, minfill, maxfill, nodes = raw[i]
                if err:
                    fails.append(("invariant:" + err.split(" ")[0], "after op %d %r: %s" % (i, op, err)))
                if nkeys != len(m.keys):
                    fails.append(("stored-keys", "after op %d: the structure stores %d keys, ideal map has %d" % (i, nkeys, len(m.keys))))
                # depth <= 1 + floor(log8((n+1)/2))
                if nkeys >= 1:
                    d, cap = 1, 2 * 8
                    while cap - 1 <= nkeys:     # smallest d with 2*8^(d)-1 > n  <=> d = 1+floor(log8((n+1)/2))
                        d += 1
                        cap *= 8
                    if height > d:
                        fails.append(("depth", "after op %d: %d keys in %d levels; bound is %d" % (i, nkeys, height, d)))
            if fails:
                break
        return fails

    def stats(self, case, obs, acc):
        oc = acc.setdefault("ops", {})
        for op in case["ops"]:
            oc[op[0]] = oc.get(op[0], 0) + 1
        hs = acc.setdefault("max_height_seen", 0)
        mk = acc.setdefault("max_keys_seen", 0)
        for r in obs.get("raw") or []:
            hs = max(hs, r[2])
            mk = max(mk, r[3])
        acc["max_height_seen"], acc["max_keys_seen"] = hs, mk
        acc["set_cases"] = acc.get("set_cases", 0) + (1 if case["cfg"]["set"] else 0)
        md = acc.setdefault("modes", {})
        md[str(case["cfg"]["mode"])] = md.get(str(case["cfg"]["mode"]), 0) + 1
        bk = acc.setdefault("bound_kind_pairs", {})
        for op in case["ops"]:
            if op[0] in ("range", "rangerev"):
                key = op[1][0] + "/" + op[2][0]
                bk[key] = bk.get(key, 0) + 1
            elif op[0] == "iternew":
                key = op[2][0] + "/" + op[3][0]
                bk[key] = bk.get(key, 0) + 1

    def nontrivial(self, case, obs):
        return len(case["ops"]) >= 8


class TreeBigIterSpec(TreeSpec):
    """C02 at scale (oracle only: the ideal map + abstract re-seek iterator are evaluated in Python): trees of three and
    four levels, dozens of iterators parked all over the key range, drains that force merges of INNER nodes, and after
    every structural change the key each iterator is parked on is overwritten (or deleted) before its next Next."""
    single_round = True     # the case list does not depend on the scale factor
    checkers = {}
    informational = set()

    def __init__(self):
        TreeSpec.__init__(self, "c02")
        self.checkers = {}

    def shrinkable(self):
        return False

    def gen(self, rng, tier, scale):
        cases = []
        sizes = [420, 700, 1300] if tier == "quick" else [420, 700, 1300, 2600, 5000, 9000]
        for n in sizes:
            for drain in ("left", "right", "middle"):
                cases.append(self.gen_big(rng, n, drain, rng.choice([0, 3])))
        return cases

    def gen_big(self, rng, n, drain, mode):
        ideal = Ideal(mode)
        ops = []
        val = [1000]

        def put(k):
            val[0] += 1
            ops.append(["put", k, val[0]])
            ideal.put(k, val[0])

        def delete(k):
            ops.append(["del", k])
            ideal.delete(k)
        for k in range(0, 2 * n, 2):
            put(k)
        nit = 0
        step = max(3, n // 60)
        for start in range(0, 2 * n, 2 * step):
            rev = rng.random() < 0.4
            lo, hi = (["unb"], ["inc", start]) if rev else (["inc", start], ["unb"])
            ops.append(["iternew", rev, lo, hi])
            ideal.iter_new(rev, lo, hi)
            ops.append(["iternext", nit])
            ideal.iter_next(nit)
            nit += 1
        keys = list(range(0, 2 * n, 2))
        if drain == "left":
            victims = keys[: int(n * 0.8)]
        elif drain == "right":
            victims = keys[::-1][: int(n * 0.8)]
        else:
            mid = n // 2
            victims = [keys[mid + ((-1) ** i) * (i // 2)] for i in range(int(n * 0.8)) if 0 <= mid + ((-1) ** i) * (i // 2) < n]
        rounds = 0
        for v in victims:
            if ideal.cls(v) not in ideal.m:
                continue
            delete(v)
            rounds += 1
            if rounds % 2 == 0:
                continue
            # hit the key every live iterator is parked on, then advance it
            for j, it in enumerate(ideal.its):
                if it["cut"] or it["pos"] is None:
                    continue
                pk = it["pos"]
                if pk in ideal.m:
                    if rng.random() < 0.8:
                        put(pk)              # overwrite: the iterator must yield the NEW value
                    else:
                        delete(pk)           # or remove it: the iterator must move on
                if rng.random() < 0.7:
                    ops.append(["iternext", j])
                    ideal.iter_next(j)
            if len(ops) > 60000:
                break
        return {"component": "tree", "cfg": {"mode": mode, "set": False, "cmpscale": rng.choice([0, 1, 2])}, "ops": ops}

    def coq_case(self, case, obs):
        return ""
