"""xsync.Group (C17): scenario generator, Coq printing of recorded histories, direct oracle."""
from vlib import SeqSpec

KINDS = {"do": "KDo", "periodic": "KPeriodic", "trigger": "KTrigger", "pot": "KPoT"}
INF = 10 ** 9


def flat_ops(ops):
    """controller steps with the members of a race listed individually"""
    for op in ops:
        if op[0] == "race":
            for s in op[1]:
                yield s
        else:
            yield op


class GroupSpec(SeqSpec):
    ctx_zoo = True      # contexts come from the zoo (cause / DeadlineExceeded / plain), see vlib.apply_ctx_zoo
    component = "group"
    imports = "From Juniper Require Import Common.Base Conc.GoLTS Conc.Group.\nFrom Juniper Require Conc.GroupMatcher."
    # a rejection counts only when certified genuine (GroupMatcher.group_reject_genuine: closures converged within the fuel)
    preamble = ("Local Open Scope nat_scope.\n"
                "Definition chk (c : config * list lab) : bool := accepts_history (fst c) (snd c) || negb (GroupMatcher.group_converged (fst c) (snd c)).\n"
                "Definition chk_conv (c : config * list lab) : bool := GroupMatcher.group_converged (fst c) (snd c).")
    checkers = {"M": "chk", "converged": "chk_conv"}
    informational = {"converged"}

    # ------------------------------------------------------------------ generation
    def __init__(self):
        self.nr = 0
        self.nt = 0
        self.nk = 0

    def _reg(self, kind, fmode="gate", open_=False, async_=False):
        r = self.nr
        self.nr += 1
        return ["reg", r, kind, fmode, open_, async_]

    def _trig(self, r, async_=False):
        t = self.nt
        self.nt += 1
        return ["trig", t, r, async_]

    def _stop(self, wait, async_=False):
        k = self.nk
        self.nk += 1
        return ["stop", k, wait, async_]

    def gen_trigger(self, rng, kind="trigger"):
        """bursts before / during / right after a run of a gated trigger function"""
        ops = []
        reg = self._reg(kind)
        r = reg[1]
        ops.append(reg)
        if kind == "pot" and rng.random() < 0.5:
            ops.append(["await", r, 1])
        for _ in range(rng.choice([1, 2, 3])):
            phase = rng.choice(["burst", "during", "after", "race"])
            if phase == "burst":
                for _ in range(rng.choice([1, 2, 3])):
                    ops.append(self._trig(r))
                ops.append(["quiesce"])
            elif phase == "during":
                ops.append(self._trig(r))
                ops.append(["quiesce"])          # f is now held at its gate
                for _ in range(rng.choice([1, 2, 3])):
                    ops.append(self._trig(r, rng.random() < 0.3))
                ops.append(["release", r])
                ops.append(["quiesce"])
            elif phase == "after":
                ops.append(self._trig(r))
                ops.append(["release", r])
                for _ in range(rng.choice([1, 2])):
                    ops.append(self._trig(r))      # right after (or just before) the run returns
                if rng.random() < 0.5:
                    ops.append(["release", r])
                ops.append(["quiesce"])
            else:
                ops.append(["race", [self._trig(r) for _ in range(rng.choice([2, 3]))]])
                ops.append(["quiesce"])
            if rng.random() < 0.5:
                ops.append(["release", r])
                ops.append(["quiesce"])
        ops += self.gen_ending(rng, [r], timer_late=(kind != "pot"))
        return ops

    def gen_periodic(self, rng):
        ops = []
        kind = rng.choice(["periodic", "periodic", "pot"])
        free = rng.random() < 0.4
        reg = self._reg(kind, "gate", free, rng.random() < 0.3)
        r = reg[1]
        ops.append(reg)
        if free:
            ops.append(["await", r, rng.choice([2, 3, 5])])
            if kind == "pot":
                for _ in range(rng.choice([1, 2])):
                    ops.append(self._trig(r))
                ops.append(["await", r, 6])
        else:
            n = rng.choice([1, 2, 3])
            for i in range(n):
                ops.append(["await", r, i + 1])
                if kind == "pot" and rng.random() < 0.5:
                    ops.append(self._trig(r))
                if rng.random() < 0.5:
                    ops.append(["quiesce"])
                ops.append(["release", r])
            ops.append(["await", r, n + 1])
            ops.append(["quiesce"])
            if rng.random() < 0.3:
                ops.append(["open", r])
                ops.append(["await", r, n + 3])
        ops += self.gen_ending(rng, [r], timer_late=False)
        return ops

    def gen_ending(self, rng, regs, timer_late=True):
        """stop the group in one of several ways, possibly racing late registrations"""
        ops = []
        how = rng.choice(["saw", "saw", "saw-race", "stop-then-saw", "cancel", "cancel-race", "none"])
        late = []
        if how == "saw":
            ops.append(self._stop(True, True))
        elif how == "saw-race":
            members = [self._stop(True)]
            # at most one timer loop is in motion at a time (keeps the matcher's state space small)
            kinds = [rng.choice(["do", "trigger", "periodic", "pot"] if timer_late else ["do", "trigger"])]
            if rng.random() < 0.5:
                kinds.append(rng.choice(["do", "trigger"]))
            for kind in kinds:
                g = self._reg(kind, rng.choice(["gate", "ctx"]), True)
                late.append(g[1])
                members.append(g)
            rng.shuffle(members)
            ops.append(["race", members])
        elif how == "stop-then-saw":
            ops.append(self._stop(False, rng.random() < 0.5))
            ops.append(self._stop(True, True))
        elif how == "cancel":
            ops.append(["cancel"])
            if rng.random() < 0.7:
                ops.append(self._stop(True, True))
        elif how == "cancel-race":
            members = [["cancel"], self._stop(True)]
            g = self._reg(rng.choice(["do", "trigger"]), "gate", True)
            late.append(g[1])
            members.append(g)
            rng.shuffle(members)
            ops.append(["race", members])
        if how != "none":
            ops.append(["quiesce"])
            for r in regs + late:
                if rng.random() < 0.7:
                    ops.append(["open", r])
            ops.append(["quiesce"])
            if rng.random() < 0.5:
                g = self._reg(rng.choice(["do", "trigger", "periodic", "pot"]), "gate", True)
                ops.append(g)                       # registration after the stop: never runs
                if g[2] in ("trigger", "pot"):
                    ops.append(self._trig(g[1]))
                ops.append(["quiesce"])
        return ops

    def gen_race(self, rng):
        """registrations racing Stop / StopAndWait / parent cancellation from several goroutines"""
        ops = []
        pre = []
        for _ in range(rng.choice([0, 1])):
            g = self._reg(rng.choice(["do", "trigger"]), rng.choice(["gate", "ctx"]), rng.random() < 0.5)
            pre.append(g[1])
            ops.append(g)
        members = []
        stopper = rng.choice(["saw", "saw", "stop", "cancel"])
        if stopper == "saw":
            members.append(self._stop(True))
        elif stopper == "stop":
            members.append(self._stop(False))
        else:
            members.append(["cancel"])
        timer_used = False
        for _ in range(rng.choice([1, 2, 2])):
            kind = rng.choice(["do", "do", "trigger"] if timer_used else ["do", "do", "trigger", "periodic", "pot"])
            timer_used = timer_used or kind in ("periodic", "pot")
            fmode = rng.choice(["gate", "ctx"]) if kind == "do" else "gate"
            g = self._reg(kind, fmode, rng.random() < 0.7)
            pre.append(g[1])
            members.append(g)
        rng.shuffle(members)
        ops.append(["race", members])
        ops.append(["quiesce"])
        if stopper != "saw" or rng.random() < 0.3:
            ops.append(self._stop(True, True))
            ops.append(["quiesce"])
        for r in pre:
            if rng.random() < 0.8:
                ops.append(["open", r])
        ops.append(["quiesce"])
        return ops

    def gen_mix(self, rng):
        ops = []
        regs = []
        timer_used = False
        for _ in range(rng.choice([1, 2, 3])):
            kind = rng.choice(["do", "trigger", "trigger"] if timer_used else ["do", "trigger", "trigger", "pot", "periodic"])
            fmode = rng.choice(["gate", "ctx"]) if kind == "do" else "gate"
            g = self._reg(kind, fmode, False, rng.random() < 0.3)
            regs.append(g)
            ops.append(g)
            if kind in ("periodic", "pot"):
                timer_used = True
                ops.append(["await", g[1], 1])     # the loop now sits inside its gated f
        trigable = [g[1] for g in regs if g[2] in ("trigger", "pot")]
        for _ in range(rng.choice([2, 4, 6])):
            c = rng.random()
            if c < 0.4 and trigable:
                ops.append(self._trig(rng.choice(trigable), rng.random() < 0.3))
            elif c < 0.7:
                ops.append(["release", rng.choice(regs)[1]])
            else:
                ops.append(["quiesce"])
        ops.append(["quiesce"])      # let every loop settle (parked or held at its gate) before the stop race
        ops += self.gen_ending(rng, [g[1] for g in regs], timer_late=not timer_used)
        return ops

    def gen(self, rng, tier, scale):
        n = int((600 if tier == "quick" else 8000) * scale)
        cases = []
        for i in range(n):
            self.nr = self.nt = self.nk = 0
            m = i % 6
            if m == 0:
                ops = self.gen_trigger(rng, "trigger")
            elif m == 1:
                ops = self.gen_trigger(rng, "pot")
            elif m == 2:
                ops = self.gen_periodic(rng)
            elif m in (3, 4):
                ops = self.gen_race(rng)
            else:
                ops = self.gen_mix(rng)
            cases.append({"component": "group", "ops": ops, "cfg": {}})
        # brute-force trials of the nanosecond windows inside spawn (registration racing StopAndWait)
        for _ in range(6 if tier == "quick" else 60):
            cases.append({"component": "group", "ops": [["hammer", int(400 * scale) + 1, rng.choice([2, 3]), rng.randrange(1 << 30)]], "cfg": {}})
        return cases

    # ------------------------------------------------------------------ Coq printing
    @staticmethod
    def config_of(case):
        regs, trigs, stops = {}, {}, {}
        for op in flat_ops(case["ops"]):
            if op[0] == "reg" and op[1] not in regs:
                regs[op[1]] = (op[2], op[3] == "ctx", bool(op[4]))
            elif op[0] == "trig" and op[1] not in trigs:
                trigs[op[1]] = op[2]
            elif op[0] == "stop" and op[1] not in stops:
                stops[op[1]] = bool(op[2])
        return regs, trigs, stops

    def coq_case(self, case, obs):
        regs, trigs, stops = self.config_of(case)
        b = lambda x: "true" if x else "false"
        nr = max(list(regs) + [-1]) + 1
        nt = max(list(trigs) + [-1]) + 1
        nk = max(list(stops) + [-1]) + 1
        rl = []
        for r in range(nr):
            k, fc, o = regs.get(r, ("do", False, False))
            rl.append("(%s, %s, %s)" % (KINDS[k], b(fc), b(o)))
        tl = [str(trigs.get(t, 0)) for t in range(nt)]
        kl = [b(stops.get(k, False)) for k in range(nk)]
        cfg = "mkCfg [%s] [%s] [%s]" % ("; ".join(rl), "; ".join(tl), "; ".join(kl))
        names = {"call-reg": "LCallReg", "ret-reg": "LRetReg", "call-trig": "LCallTrig", "ret-trig": "LRetTrig",
                 "call-stop": "LCallStop", "ret-stop": "LRetStop", "f-enter": "LFEnter", "f-exit": "LFExit",
                 "release": "LRelease", "open": "LOpen"}
        evs = []
        for e in obs["obs"]:
            k = e[0]
            if k in names:
                evs.append("%s %d" % (names[k], e[1]))
            elif k == "cancel":
                evs.append("LCancelParent")
            elif k == "quiesce" and e[1]:
                evs.append("LQuiesce")
        return "(%s, [%s])" % (cfg, "; ".join(evs))

    # ------------------------------------------------------------------ direct oracle
    def oracle(self, case, obs):
        """The clauses of C17 evaluated on the recorded history."""
        fails = []
        evs = obs["obs"]
        if evs and evs[0][0] == "hammer":
            _, iters, late, running = evs[0]
            if late:
                fails.append(("hammer:run-after-stopandwait", "in %d of %d trials of registrations racing StopAndWait a function entered after StopAndWait had returned" % (late, iters)))
            if running:
                fails.append(("hammer:running-at-stopandwait-return", "in %d of %d trials of registrations racing StopAndWait a function was running when StopAndWait returned" % (running, iters)))
            return fails
        regs, trigs, stops = self.config_of(case)
        conclusive = obs.get("aux", {}).get("quiescent", True) and not obs.get("aux", {}).get("await_timeouts", 0)
        enter_idx, exit_idx = {}, {}
        call_reg, ret_reg, call_trig, ret_trig, call_stop, ret_stop = {}, {}, {}, {}, {}, {}
        releases, opens = {}, {}
        cancel_idx = INF
        quiesces = []
        for i, e in enumerate(evs):
            k = e[0]
            if k == "f-enter":
                enter_idx.setdefault(e[1], []).append(i)
            elif k == "f-exit":
                exit_idx.setdefault(e[1], []).append(i)
            elif k == "call-reg":
                call_reg[e[1]] = i
            elif k == "ret-reg":
                ret_reg[e[1]] = i
            elif k == "call-trig":
                call_trig[e[1]] = i
            elif k == "ret-trig":
                ret_trig[e[1]] = i
            elif k == "call-stop":
                call_stop[e[1]] = i
            elif k == "ret-stop":
                ret_stop[e[1]] = i
            elif k == "release":
                releases.setdefault(e[1], []).append(i)
            elif k == "open":
                opens.setdefault(e[1], i)
            elif k == "cancel":
                cancel_idx = min(cancel_idx, i)
            elif k == "quiesce" and e[1]:
                quiesces.append(i)
        first_stop = min([cancel_idx] + list(call_stop.values()))
        cnt = lambda lst, upto: sum(1 for j in lst if j < upto)

        # (2) runs of one f never overlap: enter/exit strictly alternate
        for r in set(enter_idx) | set(exit_idx):
            seq = sorted([(j, 1) for j in enter_idx.get(r, [])] + [(j, -1) for j in exit_idx.get(r, [])])
            depth = 0
            for j, d in seq:
                depth += d
                if depth > 1:
                    fails.append(("overlap", "event %d: a second run of f of registration %d started while one is in progress" % (j, r)))
                    break
                if depth < 0:
                    fails.append(("harness-exit-without-enter", "event %d: f-exit without f-enter for registration %d" % (j, r)))
                    break
        # (1) barrier: after StopAndWait returned nothing runs and nothing starts
        for k, i in ret_stop.items():
            if not stops.get(k, False):
                continue
            for r, lst in enter_idx.items():
                late = [j for j in lst if j > i]
                if late:
                    fails.append(("run-after-stopandwait", "event %d: f of registration %d entered after StopAndWait (stopper %d) returned at event %d" % (late[0], r, k, i)))
                if cnt(lst, i) != cnt(exit_idx.get(r, []), i):
                    fails.append(("running-at-stopandwait-return", "StopAndWait (stopper %d) returned at event %d while f of registration %d was still running" % (k, i, r)))
        # after any Stop returned, a later registration never runs
        done_stop = min(list(ret_stop.values()) + [INF])
        for r, i in call_reg.items():
            if i > done_stop and enter_idx.get(r):
                fails.append(("spawn-after-stop", "registration %d was made (event %d) after Stop returned (event %d) but its f ran (event %d)" % (r, i, done_stop, enter_idx[r][0])))
        final_ok = bool(quiesces) and quiesces[-1] == len(evs) - 1
        if final_ok:
            fails += self.stuck_calls(evs, regs, stops, enter_idx, exit_idx, call_reg, ret_reg, call_trig, ret_trig, call_stop, ret_stop, cnt)
        if not conclusive:
            return fails
        # (3) every trigger call made while the group runs is followed by a run that begins after it
        for t, c in call_trig.items():
            r = trigs.get(t)
            if t not in ret_trig or r is None:
                continue
            q = next((j for j in quiesces if j > ret_trig[t]), None)
            if q is None or q > first_stop:
                continue
            ent = enter_idx.get(r, [])
            if any(c < j < q for j in ent):
                continue
            in_f_since_before = cnt(ent, q) > cnt(exit_idx.get(r, []), q)
            if in_f_since_before:
                continue       # the scenario holds f at its gate: the token waits in the channel
            fails.append(("trigger-lost", "trigger call %d on registration %d (events %d..%d) was not followed by a run of f although the group was running and quiescent at event %d" % (t, r, c, ret_trig[t], q)))
        # complete runs: at quiescence every run that the gates allow to finish has finished
        for q in quiesces:
            ctx_done = (cancel_idx < q) or any(i < q for i in ret_stop.values()) or any(i < q for i in call_stop.values())
            for r, (kind, fctx, open0) in regs.items():
                en = cnt(enter_idx.get(r, []), q)
                ex = cnt(exit_idx.get(r, []), q)
                if fctx:
                    need = en if ctx_done else 0
                elif open0 or opens.get(r, INF) < q:
                    need = en
                else:
                    need = min(en, cnt(releases.get(r, []), q))
                if ex < need:
                    fails.append(("run-not-completed", "quiescent at event %d but only %d of %d runs of registration %d returned although %d may return" % (q, ex, en, r, need)))
        return fails

    @staticmethod
    def stuck_calls(evs, regs, stops, enter_idx, exit_idx, call_reg, ret_reg, call_trig, ret_trig, call_stop, ret_stop, cnt):
        """no call is stuck at the final quiescence point (all goroutines blocked, log stable): valid
        even when an earlier wait of the scenario timed out"""
        fails = []
        q = len(evs) - 1
        running = any(cnt(enter_idx.get(r, []), q) > cnt(exit_idx.get(r, []), q) for r in regs)
        for r in call_reg:
            if r not in ret_reg:
                fails.append(("call-stuck", "registration call %d has not returned at quiescence" % r))
        for t in call_trig:
            if t not in ret_trig:
                fails.append(("call-stuck", "trigger call %d has not returned at quiescence" % t))
        for k in call_stop:
            if k not in ret_stop:
                if not stops.get(k, False):
                    fails.append(("call-stuck", "Stop call %d has not returned at quiescence" % k))
                elif not running:
                    fails.append(("stopandwait-stuck", "StopAndWait call %d has not returned at quiescence although no f is running" % k))
        return fails

    def stats(self, case, obs, acc):
        if case["ops"] and case["ops"][0][0] == "hammer":
            acc["hammer_trials"] = acc.get("hammer_trials", 0) + case["ops"][0][1]
            return
        d = acc.setdefault("scenarios", {"kinds": {}, "stops": {}, "races": 0, "trigger_calls": 0, "cancels": 0})
        for op in flat_ops(case["ops"]):
            if op[0] == "reg":
                d["kinds"][op[2]] = d["kinds"].get(op[2], 0) + 1
            elif op[0] == "stop":
                key = "StopAndWait" if op[2] else "Stop"
                d["stops"][key] = d["stops"].get(key, 0) + 1
            elif op[0] == "trig":
                d["trigger_calls"] += 1
            elif op[0] == "cancel":
                d["cancels"] += 1
        d["races"] += sum(1 for op in case["ops"] if op[0] == "race")
        aux = obs.get("aux", {})
        acc["inconclusive_no_quiescence"] = acc.get("inconclusive_no_quiescence", 0) + (0 if aux.get("quiescent", True) else 1)
        acc["inconclusive_await_timeout"] = acc.get("inconclusive_await_timeout", 0) + (1 if aux.get("await_timeouts", 0) else 0)
        acc["cleanup_leaks"] = acc.get("cleanup_leaks", 0) + (1 if aux.get("cleanup_leak") else 0)
        acc["events_total"] = acc.get("events_total", 0) + len(obs["obs"])
        acc["f_runs_total"] = acc.get("f_runs_total", 0) + sum(1 for e in obs["obs"] if e[0] == "f-enter")

    def nontrivial(self, case, obs):
        if case["ops"] and case["ops"][0][0] == "hammer":
            return True
        ops = list(flat_ops(case["ops"]))
        return any(o[0] == "reg" for o in ops) and any(o[0] in ("stop", "cancel", "trig") for o in ops)
