"""C16 — xsync.ContextCond never loses a wakeup."""
import vlib
from vlib import SeqSpec

PROP_FILES = ["C16"]


class CondSpec(SeqSpec):
    ctx_zoo = True      # contexts come from the zoo (cause / DeadlineExceeded / plain), see vlib.apply_ctx_zoo
    component = "cond"
    imports = "From Juniper Require Import Common.Base Conc.GoLTS Conc.GoLTSProofs Conc.Cond."
    # a history is reported as rejected only when the rejection is certified genuine: GoLTSProofs.reject_genuine
    # (the closure reached its fixpoint within the fuel: convergedb) - otherwise the matcher's fuel was too small.
    preamble = ("Local Open Scope nat_scope.\n"
                "Definition conv (cfg : list (gpos * nat)) (n : nat) (evs : list lab) : bool :=\n"
                "  convergedb st lab lab qstep vis lab_eqb st_eqb tau_labels (fun _ e => [e]) 64 (init cfg n) evs.\n"
                "Definition chk (c : list (gpos * nat) * nat * list lab) : bool := let '(cfg, n, evs) := c in accepts_history cfg n evs || negb (conv cfg n evs).\n"
                "Definition chk_conv (c : list (gpos * nat) * nat * list lab) : bool := let '(cfg, n, evs) := c in conv cfg n evs.")
    checkers = {"M": "chk", "converged": "chk_conv"}
    informational = {"converged"}

    def gen_one(self, rng, targeted):
        nw = rng.choice([1, 2, 2, 3, 4])
        ops = []
        pending_release = []
        nctx = nw
        if targeted == "cancel-race":
            # a Signal racing a cancellation while a second waiter needs the token: the cancelled waiter's select
            # has both arms ready; whichever it takes, the other waiter must not be left without a wakeup
            nw = rng.choice([2, 3])
            for w in range(nw):
                ops.append(["wait", w, w, "post"])
            ops.append(["quiesce"])
            steps = [["signal"], ["cancel", 0]]
            rng.shuffle(steps)
            ops += steps
            order = list(range(nw))
            if rng.random() < 0.7:
                order = [0] + order[1:]
            else:
                rng.shuffle(order)
            for w in order:
                ops.append(["release", w])
                if rng.random() < 0.7:
                    ops.append(["quiesce"])
            ops.append(["quiesce"])
            return ops, nw
        if targeted:
            # the window named by the property: waiters held between the lock release and the select
            nw = rng.choice([2, 3])
            nctx = nw
            for w in range(nw):
                ops.append(["wait", w, w, "post"])
            ops.append(["quiesce"])
            for _ in range(rng.choice([1, 2, 2, 3])):
                ops.append(["signal"])
            for w in range(nw):
                ops.append(["release", w])
            ops.append(["quiesce"])
            return ops, nctx
        steps = []
        for w in range(nw):
            steps.append(("wait", w))
        for _ in range(rng.choice([0, 1, 1, 2, 3, 5])):
            steps.append(("signal",))
        for _ in range(rng.choice([0, 0, 0, 1, 2])):
            steps.append(("broadcast",))
        for w in range(nw):
            if rng.random() < 0.3:
                steps.append(("cancel", w))
        rng.shuffle(steps)
        for st in steps:
            if st[0] == "wait":
                w = st[1]
                pos = rng.choice(["none", "none", "pre", "post", "post"])
                ops.append(["wait", w, w, pos])
                if pos != "none":
                    pending_release.append(w)
            elif st[0] == "cancel":
                ops.append(["cancel", st[1]])
            else:
                ops.append([st[0]])
            if rng.random() < 0.5:
                ops.append(["quiesce"])
            if pending_release and rng.random() < 0.4:
                w = pending_release.pop(rng.randrange(len(pending_release)))
                ops.append(["release", w])
                if rng.random() < 0.5:
                    ops.append(["quiesce"])
        while pending_release:
            ops.append(["release", pending_release.pop()])
        return ops, nctx

    def gen(self, rng, tier, scale):
        n = int((300 if tier == "quick" else 4000) * scale)
        cases = []
        for i in range(n):
            ops, nctx = self.gen_one(rng, targeted=("cancel-race" if i % 6 == 3 else (i % 6 == 0)))
            cases.append({"component": "cond", "ops": ops, "cfg": {"nctx": nctx, "late_locker": rng.random() < 0.3}})
        return cases

    @staticmethod
    def config_of(case):
        cfg = {}
        for op in case["ops"]:
            if op[0] == "wait":
                cfg[op[1]] = (op[3], op[2])
        n = (max(cfg) + 1) if cfg else 0
        return [cfg.get(w, ("none", 0)) for w in range(n)]

    def coq_case(self, case, obs):
        cfg = self.config_of(case)
        g = {"none": "GNone", "pre": "GPre", "post": "GPost"}
        cfgt = "[" + "; ".join("(%s, %d)" % (g[p], c) for p, c in cfg) + "]"
        nctx = max([c for _, c in cfg] + [0]) + 1
        for op in case["ops"]:
            if op[0] == "cancel":
                nctx = max(nctx, op[1] + 1)
        evs = []
        for e in obs["obs"]:
            k = e[0]
            if k == "spawn":
                evs.append("LSpawn %d" % e[1])
            elif k == "call-wait":
                evs.append("LCallWait %d" % e[1])
            elif k == "unlock-enter":
                evs.append("LUnlockEnter %d" % e[1])
            elif k == "unlock-exit":
                evs.append("LUnlockExit %d" % e[1])
            elif k == "ret-wait":
                evs.append("LRetWait %d %s %s" % (e[1], "true" if e[2] == "nil" else "false", "true" if e[3] else "false"))
            elif k == "call-signal":
                evs.append("LCallSignal")
            elif k == "ret-signal":
                evs.append("LRetSignal")
            elif k == "call-broadcast":
                evs.append("LCallBroadcast")
            elif k == "ret-broadcast":
                evs.append("LRetBroadcast")
            elif k == "cancel":
                evs.append("LCancel %d" % e[1])
            elif k == "release":
                evs.append("LRelease %d" % e[1])
            elif k == "quiesce":
                if e[1]:
                    evs.append("LQuiesce")
        return "(%s, %d, [%s])" % (cfgt, nctx, "; ".join(evs))

    def oracle(self, case, obs):
        """The property's clauses evaluated on the recorded history (see DESIGN.md C16)."""
        fails = []
        evs = obs["obs"]
        if not obs.get("aux", {}).get("quiescent", True):
            return []   # inconclusive run (no structural quiescence within the time limit)
        cfg = self.config_of(case)
        cancelled_ever = {op[1] for op in case["ops"] if op[0] == "cancel"}
        state = {}           # waiter -> "entered" | "released" (definitely past the real unlock) | "returned"
        ctx_of = {}
        eligible = set()     # definitely released the lock, not returned, context never cancelled
        debt = 0
        must_wake = set()
        window = 0           # how many eligible waiters are still before unlock-exit
        past_exit = set()
        in_unlock = set()
        multi_in_window = False
        nsignals = 0
        nbroadcast = 0
        returned = {}
        for i, e in enumerate(evs):
            k = e[0]
            if k == "call-wait":
                ctx_of[e[1]] = e[2]
            elif k == "unlock-enter":
                in_unlock.add(e[1])
            elif k == "unlock-exit":
                w = e[1]
                in_unlock.discard(w)
                past_exit.add(w)
                if ctx_of.get(w) not in cancelled_ever and w not in returned:
                    eligible.add(w)
            elif k == "quiesce" and e[1]:
                # a waiter sitting at a "post" gate has really unlocked by now
                for w in list(in_unlock):
                    if w < len(cfg) and cfg[w][0] == "post" and ctx_of.get(w) not in cancelled_ever and w not in returned:
                        eligible.add(w)
            elif k == "ret-wait":
                w = e[1]
                returned[w] = e[2]
                if e[2] == "nil" and not e[3]:
                    fails.append(("nil-without-lock", "event %d: Wait of waiter %d returned nil but the caller does not hold the lock" % (i, w)))
                if isinstance(e[2], str) and e[2].startswith("other:"):
                    fails.append(("wrong-error", "event %d: Wait of waiter %d returned %r, which is not its context's error" % (i, w, e[2][6:])))
                if e[2] == "err" and e[3]:
                    fails.append(("err-with-lock", "event %d: Wait of waiter %d returned the context error while holding the lock" % (i, w)))
                if e[2] == "err" and ctx_of.get(w) not in cancelled_ever:
                    fails.append(("spurious-error", "event %d: Wait of waiter %d returned an error but its context was never cancelled" % (i, w)))
                eligible.discard(w)
                must_wake.discard(w)
                if e[2] == "nil" and debt > 0:
                    debt -= 1
            elif k == "call-signal":
                nsignals += 1
                if len(eligible) - debt > 0:
                    debt += 1
                    if debt >= 2:
                        multi_in_window = True    # two wakeups owed at once to waiters that are not (known to be) parked
            elif k == "call-broadcast":
                nbroadcast += 1
                must_wake |= eligible
                eligible = set()
                debt = 0
                multi_in_window = False      # a Broadcast settles everything owed so far
        # only waiters that have left the Locker's Unlock (they are in, or past, the select) count as blocked
        pending = [w for w in ctx_of if w not in returned and w in past_exit]
        if debt > 0 and [w for w in pending if w in eligible]:
            # the recorded known finding: two wakeups owed at once (since the last Broadcast) to waiters that had not parked
            sig = "lost-wakeup:two-signals-while-two-waiters-between-unlock-and-select" if multi_in_window else "lost-wakeup:other"
            fails.append((sig, "%d Signal call(s) owed a wakeup to waiters that had released the lock, but waiters %r are still blocked at quiescence (signals=%d, broadcasts=%d)"
                          % (debt, sorted(w for w in pending if w in eligible), nsignals, nbroadcast)))
        if [w for w in pending if w in must_wake]:
            fails.append(("broadcast-missed", "waiters %r had released the lock before a Broadcast and are still blocked at quiescence" % sorted(w for w in pending if w in must_wake)))
        late = [w for w in pending if ctx_of.get(w) in cancelled_ever and w in past_exit]
        if late:
            fails.append(("ctx-not-prompt", "waiters %r: context cancelled but Wait has not returned at quiescence" % late))
        return fails

    def stats(self, case, obs, acc):
        d = acc.setdefault("scenarios", {"waiters": {}, "signals": {}, "broadcasts": {}, "cancels": {}, "gates": {}})
        nw = sum(1 for o in case["ops"] if o[0] == "wait")
        ns = sum(1 for o in case["ops"] if o[0] == "signal")
        nb = sum(1 for o in case["ops"] if o[0] == "broadcast")
        nc = sum(1 for o in case["ops"] if o[0] == "cancel")
        for k, v in (("waiters", nw), ("signals", ns), ("broadcasts", nb), ("cancels", nc)):
            d[k][str(v)] = d[k].get(str(v), 0) + 1
        for o in case["ops"]:
            if o[0] == "wait":
                d["gates"][o[3]] = d["gates"].get(o[3], 0) + 1
        acc["inconclusive_no_quiescence"] = acc.get("inconclusive_no_quiescence", 0) + (0 if obs.get("aux", {}).get("quiescent", True) else 1)
        acc["events_total"] = acc.get("events_total", 0) + len(obs["obs"])

    def nontrivial(self, case, obs):
        return sum(1 for o in case["ops"] if o[0] == "wait") >= 1 and sum(1 for o in case["ops"] if o[0] in ("signal", "broadcast", "cancel")) >= 1


SPECS = {"cond": (CondSpec(), "harness", "runner")}


def run(ctx):
    proofs_ok = ctx.check_proofs(PROP_FILES, extra_targets=["theories/Conc/Cond.vo", "theories/Conc/GoLTSProofs.vo"])
    ok, out, exe = vlib.build_runner()
    if not ok:
        ctx.violation("harness-build", "the harness does not build against the current tree: " + out[-1500:], {"build_output": out[-4000:]}, failing_input=False)
        return ctx.finish()
    vlib.seq_differential(ctx, CondSpec(), exe, proofs_ok, tag="cond")
    if ctx.tier == "thorough":
        vlib.patience_part(ctx, CondSpec(), exe, proofs_ok, tag="cond")
    vlib.merge_parts(ctx, "cases = controller scripts (spawn waiters with gates inside the Locker's Unlock, Signal/Broadcast, cancel, release, quiesce) run against the real ContextCond; "
                     "each recorded history must be accepted by the LTS model (some schedule produces it and every quiescence point is a model state with nothing enabled); "
                     "distinct = hash of script; non-trivial = >= 1 waiter and >= 1 signal/broadcast/cancel")
    def deep():
        # only when an obligation (e.g. the source census) no longer checks: patience mode, bigger storms
        vlib.patience_part(ctx, CondSpec(), exe, proofs_ok, tag="cond", ncases=16, ms=6500)
    vlib.handle_broken_proof(ctx, deep if ctx.tier == "quick" else None)
    ctx.finish()
