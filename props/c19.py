"""C19 — every pure helper of xslices, xsort, xmaps, xmath, xerrors and xmath/xrand returns what its
documentation specifies (results, in-place/aliasing effects, panics); xrand: structure of samples."""
import json
import os
import re
import shutil
import sys

import vlib
from pure_common import SPECS as SPEC_CLASSES
from scale_common import Extras19Spec

PROP_FILES = ["C19", "TranslatedSlices", "TranslatedSlices2"]
# tag -> (spec, harness module, runner executable)
SPECS = dict((cls.package, (cls(), "harness_pure", "runner-pure")) for cls in SPEC_CLASSES)
SPECS["extras"] = (Extras19Spec(), "harness", "runner")


def config_switches():
    txt = open(os.path.join(vlib.COQ, "theories", "Pure", "Config.v")).read()
    return dict((m.group(1), m.group(2) == "true") for m in re.finditer(r"^Definition (\w+) : bool := (true|false)\.", txt, flags=re.M))


def sync_optional_sources():
    """harness_pure/optional/xrand_trace.go.txt needs the verif hook xmath/xrand/xrand_verif_export.go in the
    repository under test; it is part of the harness only when the hook is there."""
    hook = os.path.exists(os.path.join(vlib.REPO, "xmath", "xrand", "xrand_verif_export.go"))
    gen = os.path.join(vlib.ROOT, "harness_pure", "xrand_trace_gen.go")
    if hook:
        shutil.copyfile(os.path.join(vlib.ROOT, "harness_pure", "optional", "xrand_trace.go.txt"), gen)
    elif os.path.exists(gen):
        os.remove(gen)
    SPECS["xrand"][0].trace_hook = hook
    return hook


def run(ctx):
    proofs_ok = ctx.check_proofs(PROP_FILES, extra_targets=["theories/Pure/Corr.vo"])
    hook = sync_optional_sources()
    ctx.coverage["xrand_oracle_trace_comparison"] = ("on (verif hook present): the model is evaluated on the recorded draws of each run and compared exactly"
                                                    if hook else "off (hook xmath/xrand/xrand_verif_export.go not in the repository): structure only")
    ok, out, exe = vlib.build_runner(module="harness_pure", exe_name="runner-pure")
    if not ok:
        ctx.violation("harness-build", "the harness does not build against the current tree: " + out[-1500:], {"build_output": out[-4000:]}, failing_input=False)
        return ctx.finish()
    ctx.coverage["model_configuration(Pure/Config.v)"] = config_switches()
    stmts = re.findall(r"^Lemma\s+(C19_[A-Za-z0-9_']+)", open(os.path.join(vlib.COQ, "Properties", "C19.v")).read(), flags=re.M)
    ctx.coverage["statements"] = {"count": len(stmts), "names": stmts,
                                  "note": "each obligation (Theorem) of Properties/C19.v is the conjunction of the statements (Lemma) of one section; "
                                          "Print Assumptions on the conjunction covers each of them"}
    for tag, (spec, mod_, _) in list(SPECS.items()):
        if mod_ == "harness_pure":
            vlib.seq_differential(ctx, spec, exe, proofs_ok, tag=tag)
    okX, outX, exeX = vlib.build_runner()
    if okX:
        vlib.seq_differential(ctx, SPECS["extras"][0], exeX, proofs_ok, tag="extras")
    vlib.merge_parts(ctx, "cases = batches of independent calls of one exported function; small domain: all slices up to length 5-6 over the "
                     "alphabet {1,2,3} (0 = cleared), all predicates / all 512 binary relations / all 13 strict weak orders on the alphabet, all index and "
                     "count arguments in [-1, len+1], extreme integers, all error chains of depth <= 4, all (n,k) in [0,7]x[0,8] with seeded sources; "
                     "exhaustive in the thorough tier, a seeded sample in quick; plus random larger inputs. distinct = hash of the call list; "
                     "non-trivial = some slice argument of length >= 2")
    ctx.assumptions.append("xrand: only the STRUCTURE of samples is verified (min(k,n) items from pairwise distinct positions, Shuffle a permutation, every "
                           "subset reachable); 'every subset equally likely' is not proved (continuous variates through math.Log/Exp) — chi-square tables "
                           "are reported as supporting data only")
    ctx.assumptions.append("Go ints are modelled as unbounded integers except in xmath.Abs and in xslices.Chunk's len(s)+chunkSize-1; lengths and index arguments are assumed < 2^62")
    vlib.handle_broken_proof(ctx)
    ctx.finish(trusted_extra=["harness_pure (separate Go module) and props/pure_common.py (argument encodings for predicates/relations/functions, direct oracles)"])


def replay(ctx, path):
    """Re-run the recorded case: implementation + direct oracle + model comparison. Exit 1 if it still fails."""
    body = json.load(open(path))
    rp = body.get("replay", {})
    case = rp.get("case")
    if not case:
        print("replay: no runnable case recorded in", path)
        sys.exit(2)
    sync_optional_sources()
    ok, out, exe = vlib.build_runner(module="harness_pure", exe_name="runner-pure")
    if not ok:
        print("replay: harness build failed:\n" + out[-2000:])
        sys.exit(2)
    case = dict(case, id=0)
    obs, err = vlib.run_runner(exe, "pure", [case])
    if err or not obs:
        print("VIOLATION property=%s replay=%s (runner: %s)" % (ctx.pid, path, err))
        sys.exit(1)
    spec = SPECS[body.get("signature", "xslices:").split(":")[0] if body.get("signature", "").split(":")[0] in SPECS else "xslices"][0]
    fails = spec.oracle(case, obs[0])
    vlib.coq_make(["theories/Pure/Corr.vo"])
    bad, cerr = vlib.eval_failing(spec.imports, [spec.coq_case(case, obs[0])], "check_case", "C19_replay")
    print("case:", json.dumps(case["ops"]))
    print("implementation:", json.dumps([o["r"] for o in obs[0]["obs"]]))
    print("oracle failures:", fails)
    print("model (Pure/Corr.v check_case) agrees with the implementation:", not bad and not cerr, cerr or "")
    if fails or bad or cerr:
        print("VIOLATION property=%s replay=%s" % (ctx.pid, path))
        sys.exit(1)
    print("replay: the recorded case no longer fails")
    sys.exit(0)
