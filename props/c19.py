"""C19 — every pure helper of xslices, xsort, xmaps, xmath, xerrors and xmath/xrand returns what its
documentation specifies (results, in-place/aliasing effects, panics); xrand: structure of samples."""
import os
import re

import vlib
from pure_common import SPECS

PROP_FILES = ["C19"]


def config_switches():
    txt = open(os.path.join(vlib.COQ, "theories", "Pure", "Config.v")).read()
    return dict((m.group(1), m.group(2) == "true") for m in re.finditer(r"^Definition (\w+) : bool := (true|false)\.", txt, flags=re.M))


def run(ctx):
    proofs_ok = ctx.check_proofs(PROP_FILES, extra_targets=["theories/Pure/Corr.vo"])
    ok, out, exe = vlib.build_runner(module="harness_pure", exe_name="runner-pure")
    if not ok:
        ctx.violation("harness-build", "the harness does not build against the current tree: " + out[-1500:], {"build_output": out[-4000:]}, failing_input=False)
        return ctx.finish()
    ctx.coverage["model_configuration(Pure/Config.v)"] = config_switches()
    for cls in SPECS:
        spec = cls()
        vlib.seq_differential(ctx, spec, exe, proofs_ok, tag=spec.package)
    vlib.merge_parts(ctx, "cases = batches of independent calls of one exported function; small domain: all slices up to length 5-6 over the "
                     "alphabet {1,2,3} (0 = cleared), all predicates / all 512 binary relations / all 13 strict weak orders on the alphabet, all index and "
                     "count arguments in [-1, len+1], extreme integers, all error chains of depth <= 4, all (n,k) in [0,7]x[0,8] with seeded sources; "
                     "exhaustive in the thorough tier, a seeded sample in quick; plus random larger inputs. distinct = hash of the call list; "
                     "non-trivial = some slice argument of length >= 2")
    ctx.assumptions.append("xrand: only the STRUCTURE of samples is verified (min(k,n) items from pairwise distinct positions, Shuffle a permutation, every "
                           "subset reachable); 'every subset equally likely' is not proved (continuous variates through math.Log/Exp) — chi-square tables "
                           "are reported as supporting data only")
    ctx.assumptions.append("Go ints are modelled as unbounded integers except in xmath.Abs and in xslices.Chunk's len(s)+chunkSize-1; lengths and index arguments are assumed < 2^62")
    vlib.handle_broken_proof(ctx)
    ctx.finish(trusted_extra=["harness_pure (separate Go module) and props/pure_common.py (argument encodings for predicates/relations/functions, direct oracles)"])
