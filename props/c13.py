"""C13 — parallel.Do / DoContext / Map / MapContext: exactly once, bounded, barrier, positional, error contract."""
import vlib
from scale_common import ScaleSpec
from pardo_common import ParDoSpec

PROP_FILES = ["C13"]


SPECS = {"scale": (ScaleSpec(['do']), "harness", "runner"), "pardo": (ParDoSpec(), "harness_pardo", "runner-pardo")}


def run(ctx):
    proofs_ok = ctx.check_proofs(PROP_FILES, extra_targets=["theories/Conc/ParDo.vo", "theories/Conc/ParDoMatcherComplete.vo"])
    ok, out, exe = vlib.build_runner(module="harness_pardo", exe_name="runner-pardo")
    if not ok:
        ctx.violation("harness-build", "the harness does not build against the current tree: " + out[-1500:],
                      {"build_output": out[-4000:]}, failing_input=False)
        return ctx.finish()
    vlib.seq_differential(ctx, ParDoSpec(), exe, proofs_ok, tag="pardo")
    if ctx.tier == "thorough":
        vlib.patience_part(ctx, ParDoSpec(), exe, proofs_ok, tag="pardo")
    okS, outS, exeS = vlib.build_runner()
    if okS:
        vlib.seq_differential(ctx, ScaleSpec(['do']), exeS, proofs_ok, tag="scale")
    else:
        ctx.violation("harness-build", "the harness does not build against the current tree: " + outS[-1500:], {"build_output": outS[-4000:]}, failing_input=False)
    vlib.merge_parts(ctx, "cases = controller scripts (call one of Do/DoContext/Map/MapContext with chosen n, parallelism, GOMAXPROCS, "
                     "gated and failing indices; release gates in a chosen order; cancel the caller's context before/mid-flight; quiesce) "
                     "run against the real package; each recorded history (call/ret, enter/exit of every f(i) with the context state seen at entry) "
                     "must be accepted by the LTS model of Conc/ParDo.v (some schedule produces it; every quiescence point is a model state with "
                     "nothing enabled) and must satisfy the clauses of C13 evaluated directly on the history; "
                     "distinct = hash of (script, configuration); non-trivial = n >= 1 and the API was called")
    def deep():
        # only when an obligation (e.g. the source census) no longer checks: patience mode, bigger storms
        vlib.patience_part(ctx, ParDoSpec(), exe, proofs_ok, tag="pardo", ncases=16, ms=6500)
    vlib.handle_broken_proof(ctx, deep if ctx.tier == "quick" else None)
    ctx.finish()
