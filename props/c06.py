"""C06 — xlist.List equals an ideal sequence of node handles for every history."""
import vlib
from vlib import SeqSpec, z, zlist

PROP_FILES = ["C06"]


def b(x):
    return "true" if x else "false"


class XListSpec(SeqSpec):
    component = "xlist"
    imports = "From Juniper Require Import Common.Base XList.Model XList.Corr."
    checkers = {"M": "check_M", "S": "check_S"}

    def gen_one(self, rng, nops):
        ideal = []
        nalloc = 0
        ops = []
        # Values: all different, drawn from {0,1,2} (many nodes carry equal Values), or all equal
        vstyle = rng.choice(["unique", "unique", "few", "few", "same"])
        for _ in range(nops):
            if not ideal:
                k = rng.choice(["pushfront", "pushback", "clear"] if rng.random() < 0.1 else ["pushfront", "pushback"])
            else:
                k = rng.choices(["pushfront", "pushback", "insertbefore", "insertafter", "remove", "movebefore", "moveafter",
                                 "movetofront", "movetoback", "clear"], [3, 3, 3, 3, 4, 5, 5, 2, 2, 0.3])[0]

            def pick():
                r = rng.random()
                if r < 0.2:
                    return ideal[0]
                if r < 0.4:
                    return ideal[-1]
                return rng.choice(ideal)

            def pick2():
                # node/mark: equal, adjacent in either order, or arbitrary
                a = pick()
                r = rng.random()
                i = ideal.index(a)
                if r < 0.15:
                    return a, a
                if r < 0.4 and i + 1 < len(ideal):
                    return a, ideal[i + 1]
                if r < 0.65 and i > 0:
                    return a, ideal[i - 1]
                return a, pick()
            v = 10 * nalloc + 10 if vstyle == "unique" else rng.randrange(3) if vstyle == "few" else 7
            if k == "pushfront":
                ops.append([k, v]); ideal.insert(0, nalloc); nalloc += 1
            elif k == "pushback":
                ops.append([k, v]); ideal.append(nalloc); nalloc += 1
            elif k == "insertbefore":
                m = pick(); ops.append([k, v, m]); ideal.insert(ideal.index(m), nalloc); nalloc += 1
            elif k == "insertafter":
                m = pick(); ops.append([k, v, m]); ideal.insert(ideal.index(m) + 1, nalloc); nalloc += 1
            elif k == "remove":
                n = pick(); ops.append([k, n]); ideal.remove(n)
            elif k in ("movebefore", "moveafter"):
                n, m = pick2(); ops.append([k, n, m])
                if n != m:
                    ideal.remove(n)
                    ideal.insert(ideal.index(m) + (1 if k == "moveafter" else 0), n)
            elif k == "movetofront":
                n = pick(); ops.append([k, n]); ideal.remove(n); ideal.insert(0, n)
            elif k == "movetoback":
                n = pick(); ops.append([k, n]); ideal.remove(n); ideal.append(n)
            elif k == "clear":
                ops.append([k]); ideal = []
        return ops

    def gen(self, rng, tier, scale):
        n = int((900 if tier == "quick" else 9000) * scale)
        # inst: the element type the history is run on (int; any holding nil / uncomparable values; float64 with NaN)
        return [{"component": "xlist", "ops": self.gen_one(rng, rng.choice([3, 8, 20, 50, 100] if tier == "quick" else [5, 20, 60, 150, 300])),
                 "cfg": {"inst": rng.choice(["int", "int", "any", "float"])}}
                for _ in range(n)]

    def op_term(self, op):
        k = op[0]
        if k == "pushfront":
            return "LPushFront %s" % z(op[1])
        if k == "pushback":
            return "LPushBack %s" % z(op[1])
        if k == "insertbefore":
            return "zInsertBefore %s %d" % (z(op[1]), op[2])
        if k == "insertafter":
            return "zInsertAfter %s %d" % (z(op[1]), op[2])
        if k == "remove":
            return "zRemove %d" % op[1]
        if k == "movebefore":
            return "zMoveBefore %d %d" % (op[1], op[2])
        if k == "moveafter":
            return "zMoveAfter %d %d" % (op[1], op[2])
        if k == "movetofront":
            return "zMoveToFront %d" % op[1]
        if k == "movetoback":
            return "zMoveToBack %d" % op[1]
        return "LClear"

    def coq_case(self, case, obs):
        ops = "[" + "; ".join(self.op_term(o) for o in case["ops"]) + "]"
        os_ = "[" + "; ".join("zobs %s %s %s %s %s %s %s %s" % (b(o[0]), zlist(o[1]), zlist(o[2]), z(o[3]), zlist(o[4]), b(o[5]), b(o[6]), b(o[7]))
                              for o in obs["obs"]) + "]"
        return "(%s,\n %s)" % (ops, os_)

    def oracle(self, case, obs):
        """The property itself, evaluated on the implementation's walks against an ideal sequence."""
        ideal = []
        nalloc = 0
        vals = {}
        fails = []
        for k, op in enumerate(case["ops"]):
            if k >= len(obs["obs"]):
                fails.append(("missing-observation", "op %d %r: the run stopped early" % (k, op)))
                break
            ob = obs["obs"][k]
            n = op[0]
            if n in ("pushfront", "pushback", "insertbefore", "insertafter"):
                vals[nalloc] = op[1]
                if n == "pushfront":
                    ideal.insert(0, nalloc)
                elif n == "pushback":
                    ideal.append(nalloc)
                elif n == "insertbefore":
                    ideal.insert(ideal.index(op[2]), nalloc)
                else:
                    ideal.insert(ideal.index(op[2]) + 1, nalloc)
                nalloc += 1
            elif n == "remove":
                ideal.remove(op[1])
            elif n in ("movebefore", "moveafter"):
                if op[1] != op[2]:
                    ideal.remove(op[1])
                    ideal.insert(ideal.index(op[2]) + (1 if n == "moveafter" else 0), op[1])
            elif n == "movetofront":
                ideal.remove(op[1]); ideal.insert(0, op[1])
            elif n == "movetoback":
                ideal.remove(op[1]); ideal.append(op[1])
            elif n == "clear":
                ideal = []
            exp = [False, ideal, ideal[::-1], len(ideal), [vals[h] for h in ideal], True, True, True]
            if ob[1][:1] == [777777]:
                fails.append(("handle-not-fresh", "op %d %r returned a node that is a handle handed out earlier (handles do not keep their identity)" % (k, op)))
                break
            if ob != exp:
                what = ["panic", "forward-walk", "backward-walk", "len", "values", "front-has-prev", "back-has-next", "detached-node-not-isolated"]
                d = next(i for i in range(8) if ob[i] != exp[i])
                fails.append(("walk-mismatch:" + what[d], "op %d %r: %s is %r, ideal sequence gives %r" % (k, op, what[d], ob[d], exp[d])))
                break
        return fails

    def stats(self, case, obs, acc):
        oc = acc.setdefault("ops", {})
        for op in case["ops"]:
            key = op[0]
            if op[0] in ("movebefore", "moveafter"):
                key += "(node==mark)" if op[1] == op[2] else ""
            oc[key] = oc.get(key, 0) + 1
        lens = acc.setdefault("len_after_op", {"0": 0, "1": 0, "2-5": 0, ">5": 0})
        for ob in obs["obs"]:
            n = ob[3]
            lens["0" if n == 0 else "1" if n == 1 else "2-5" if n <= 5 else ">5"] += 1


SPECS = {"xlist": (XListSpec(), "harness", "runner")}


def run(ctx):
    proofs_ok = ctx.check_proofs(PROP_FILES, extra_targets=["theories/XList/Corr.vo"])
    ok, out, exe = vlib.build_runner()
    if not ok:
        ctx.violation("harness-build", "the harness does not build against the current tree: " + out[-1500:], {"build_output": out[-4000:]}, failing_input=False)
        return ctx.finish()
    vlib.seq_differential(ctx, XListSpec(), exe, proofs_ok)
    vlib.merge_parts(ctx, "cases = operation sequences with node/mark handles chosen among nodes currently in the list (biased to ends, equal, adjacent in both orders), lists re-grown after Clear/emptying; distinct = hash of op list; non-trivial = >= 4 ops")
    vlib.handle_broken_proof(ctx)
    ctx.finish()
