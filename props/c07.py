"""C07 — iterator/stream/xslices combinators compute their documented sequence function."""
import vlib
from scale_common import ScaleSpec
from pipes_common import PipeSpec, XSlicesAgreeSpec

SPECS = {"scale": (ScaleSpec(['last']), "harness", "runner"), "iterator": (PipeSpec("iter", False), "harness", "runner"), "stream": (PipeSpec("stream", False), "harness", "runner"), "xslices": (XSlicesAgreeSpec(), "harness", "runner"),
         "iterator-panics": (PipeSpec("iter", False, panics=True), "harness", "runner")}

PROP_FILES = ["C07", "TranslatedSlices2"]


def run(ctx):
    proofs_ok = ctx.check_proofs(PROP_FILES, extra_targets=["theories/Iter/Corr.vo"])
    ok, out, exe = vlib.build_runner()
    if not ok:
        ctx.violation("harness-build", "the harness does not build against the current tree: " + out[-1500:], {"build_output": out[-4000:]}, failing_input=False)
        return ctx.finish()
    vlib.seq_differential(ctx, PipeSpec("iter", faults=False), exe, proofs_ok, tag="iterator")
    vlib.seq_differential(ctx, PipeSpec("stream", faults=False), exe, proofs_ok, tag="stream")
    # panicking callbacks (recovered by the consumer, who goes on): the model says what each combinator's state then is
    vlib.seq_differential(ctx, PipeSpec("iter", faults=False, panics=True), exe, proofs_ok, tag="iterator-panics", scale=0.3)
    vlib.seq_differential(ctx, XSlicesAgreeSpec(), exe, proofs_ok, tag="xslices")
    okS, outS, exeS = vlib.build_runner()
    if okS:
        vlib.seq_differential(ctx, ScaleSpec(['last']), exeS, proofs_ok, tag="scale")
    else:
        ctx.violation("harness-build", "the harness does not build against the current tree: " + outS[-1500:], {"build_output": outS[-4000:]}, failing_input=False)
    vlib.merge_parts(ctx, "cases = random pipelines (depth 0-4) of the real combinators over instrumented sources (empty, singleton, all-equal, alternating, run at start/end), "
                     "parameters n in {-1,0,1,..,len+1}, consumer = k Next calls (k up to len+3, past the end) or a reducer; compared: every result, the number of source pulls after every step, the source event log; "
                     "distinct = hash of (pipeline, program); non-trivial = at least one combinator and one step")
    vlib.handle_broken_proof(ctx)
    ctx.finish()
