package main

// C10: stream.Pipe scenarios.
//
// cfg: {"buf": n, "threads": [[["send", ctx], ["trysend", ctx], ["close", 0|1], ...], ...]}
//   thread t is a goroutine that executes its script in order; it needs one token per call.
//   The value sent by the i-th call of thread t is t*1000+i.
// ops (executed in order by the controller):
//   ["go", t, k]    give k tokens to thread t (k calls may now run back to back)
//   ["next", ctx]   start Next(ctx) in its own goroutine (skipped while a Next is still pending)
//   ["rclose"]      receiver.Close() (at most once)
//   ["cancel", ctx] cancel a context
//   ["quiesce"]     wait until every goroutine is blocked and the log is stable
// Every invocation is logged before the call and every response after it returned.

import (
	"context"
	"errors"
	"sync"
	"sync/atomic"
	"time"

	"github.com/bradenaw/juniper/stream"
)

func init() { components["pipe"] = runPipe }

var errPipeSender = errors.New("verif: sender failed")

func classifySendErr(err error) string {
	switch {
	case err == nil:
		return "nil"
	case isCtxErr(err):
		return "ctx"
	case err == stream.ErrClosedPipe:
		return "closed"
	case err == errPipeSender:
		return "serr"
	}
	return "other:" + err.Error()
}

type pipeOp struct {
	kind string
	arg  int
}

func runPipe(c *Case) *Obs {
	h := &hlog{}
	bufSize := num(c.Cfg["buf"])
	var scripts [][]pipeOp
	if ths, ok := c.Cfg["threads"].([]any); ok {
		for _, th := range ths {
			var sc []pipeOp
			for _, o := range th.([]any) {
				oo := o.([]any)
				sc = append(sc, pipeOp{kind: oo[0].(string), arg: num(oo[1])})
			}
			scripts = append(scripts, sc)
		}
	}
	sender, recv := stream.Pipe[int](bufSize)
	ctxs := newCtxSet()
	var ctxMu sync.Mutex
	getCtx := func(id int) context.Context {
		ctxMu.Lock()
		defer ctxMu.Unlock()
		return ctxs.get(id)
	}
	// create every context up front so that the goroutines only read the set
	for _, sc := range scripts {
		for _, o := range sc {
			if o.kind != "close" {
				getCtx(o.arg)
			}
		}
	}
	for _, op := range c.Ops {
		if k := op[0].(string); k == "next" || k == "cancel" {
			getCtx(num(op[1]))
		}
	}

	var wg sync.WaitGroup
	var stop int32
	toks := make([]chan struct{}, len(scripts))
	for t := range scripts {
		toks[t] = make(chan struct{}, 256)
		wg.Add(1)
		go func(t int) {
			defer wg.Done()
			for i, o := range scripts[t] {
				if _, ok := <-toks[t]; !ok || atomic.LoadInt32(&stop) != 0 {
					return
				}
				switch o.kind {
				case "send":
					ctx := getCtx(o.arg)
					h.add("call-send", t, o.arg)
					err := sender.Send(ctx, t*1000+i)
					h.add("ret-send", t, classifySendErr(err))
				case "trysend":
					ctx := getCtx(o.arg)
					h.add("call-trysend", t, o.arg)
					ok, err := sender.TrySend(ctx, t*1000+i)
					h.add("ret-trysend", t, ok, classifySendErr(err))
				case "close":
					h.add("call-close", t, o.arg)
					if o.arg != 0 {
						sender.Close(errPipeSender)
					} else {
						sender.Close(nil)
					}
					h.add("ret-close", t)
				}
			}
		}(t)
	}

	var nextPending int32
	rclosed := false
	quiet := true
	for _, op := range c.Ops {
		switch op[0].(string) {
		case "go":
			t, k := num(op[1]), num(op[2])
			if t < 0 || t >= len(toks) {
				continue
			}
			h.add("go", t, k)
			for i := 0; i < k && i < 200; i++ {
				select {
				case toks[t] <- struct{}{}:
				default:
				}
			}
		case "next":
			if atomic.LoadInt32(&nextPending) != 0 {
				continue
			}
			cid := num(op[1])
			ctx := getCtx(cid)
			atomic.StoreInt32(&nextPending, 1)
			h.add("call-next", cid)
			wg.Add(1)
			go func() {
				defer wg.Done()
				v, err := recv.Next(ctx)
				switch {
				case err == nil:
					h.add("ret-next", "val", v/1000, v%1000)
				case err == stream.End:
					h.add("ret-next", "end")
				case err == errPipeSender:
					h.add("ret-next", "serr")
				case isCtxErr(err):
					h.add("ret-next", "ctx")
				default:
					h.add("ret-next", "other:"+err.Error())
				}
				atomic.StoreInt32(&nextPending, 0)
			}()
		case "rclose":
			if rclosed {
				continue
			}
			rclosed = true
			h.add("call-rclose")
			recv.Close()
			h.add("ret-rclose")
		case "cancel":
			cid := num(op[1])
			h.add("cancel", cid)
			ctxMu.Lock()
			ctxs.cancel(cid)
			ctxMu.Unlock()
		case "quiesce":
			ok := quiesce(h, 5*time.Second, nil)
			quiet = quiet && ok
			h.add("quiesce", ok)
		}
	}
	ok := quiesce(h, 5*time.Second, nil)
	quiet = quiet && ok
	h.add("quiesce", ok)
	evs := h.snapshot()

	// clean up: let every goroutine of this scenario finish
	atomic.StoreInt32(&stop, 1)
	for _, tk := range toks {
		close(tk)
	}
	ctxMu.Lock()
	ctxs.cancelAll()
	ctxMu.Unlock()
	if !rclosed {
		recv.Close()
	}
	done := make(chan struct{})
	go func() { wg.Wait(); close(done) }()
	leaked := false
	select {
	case <-done:
	case <-time.After(5 * time.Second):
		leaked = true
	}
	o := &Obs{}
	for _, e := range evs {
		o.Obs = append(o.Obs, e)
	}
	o.Aux = map[string]any{"quiescent": quiet, "cleanup_leak": leaked}
	return o
}
