package main

// C18 part B: xsync.Map[int, V] against a raw sync.Map, for V = int (concrete type) and
// V = error (interface type; value 0 denotes the nil error, v >= 1 a distinct non-nil error).
// Every op is executed on both maps; both results are recorded (a panic is recorded as "panic").
//
// ops: ["load",k] ["store",k,v] ["loadorstore",k,v] ["loadanddelete",k] ["delete",k] ["swap",k,v]
//      ["cas",k,old,new] ["cad",k,old] ["range"]

import (
	"sort"
	"sync"

	"github.com/bradenaw/juniper/xsync"
)

func init() { components["xmap"] = runXMap }

type idErr struct{ id int }

func (e *idErr) Error() string { return "e" }

func runXMap(c *Case) *Obs {
	kind, _ := c.Cfg["vkind"].(string)
	if kind == "error" {
		errs := map[int]*idErr{}
		dec := func(v int) error {
			if v == 0 {
				return nil
			}
			e, ok := errs[v]
			if !ok {
				e = &idErr{id: v}
				errs[v] = e
			}
			return e
		}
		encAny := func(a any) any {
			if a == nil {
				return nil
			}
			return a.(*idErr).id
		}
		enc := func(e error) any {
			if e == nil {
				return nil
			}
			return e.(*idErr).id
		}
		return runXMapT[error](c, dec, enc, encAny)
	}
	return runXMapT[int](c, func(v int) int { return v }, func(v int) any { return v }, func(a any) any {
		if a == nil {
			return nil
		}
		return a.(int)
	})
}

func guarded(f func() []any) any {
	var res []any
	if p, _ := protect(func() { res = f() }); p {
		return "panic"
	}
	if res == nil {
		res = []any{}
	}
	return res
}

func sortPairs(ps [][]any) []any {
	sort.Slice(ps, func(i, j int) bool { return ps[i][0].(int) < ps[j][0].(int) })
	out := make([]any, 0, len(ps))
	for _, p := range ps {
		out = append(out, p)
	}
	return out
}

func runXMapT[V any](c *Case, dec func(int) V, enc func(V) any, encAny func(any) any) *Obs {
	var xm xsync.Map[int, V]
	var raw sync.Map
	o := &Obs{}
	for _, op := range c.Ops {
		var xs, rw any
		switch op[0].(string) {
		case "load":
			k := num(op[1])
			xs = guarded(func() []any { v, ok := xm.Load(k); return []any{enc(v), ok} })
			rw = guarded(func() []any { v, ok := raw.Load(k); return []any{encAny(v), ok} })
		case "store":
			k, v := num(op[1]), dec(num(op[2]))
			xs = guarded(func() []any { xm.Store(k, v); return nil })
			rw = guarded(func() []any { raw.Store(k, v); return nil })
		case "loadorstore":
			k, v := num(op[1]), dec(num(op[2]))
			xs = guarded(func() []any { a, l := xm.LoadOrStore(k, v); return []any{enc(a), l} })
			rw = guarded(func() []any { a, l := raw.LoadOrStore(k, v); return []any{encAny(a), l} })
		case "loadanddelete":
			k := num(op[1])
			xs = guarded(func() []any { v, l := xm.LoadAndDelete(k); return []any{enc(v), l} })
			rw = guarded(func() []any { v, l := raw.LoadAndDelete(k); return []any{encAny(v), l} })
		case "delete":
			k := num(op[1])
			xs = guarded(func() []any { xm.Delete(k); return nil })
			rw = guarded(func() []any { raw.Delete(k); return nil })
		case "swap":
			k, v := num(op[1]), dec(num(op[2]))
			xs = guarded(func() []any { p, l := xm.Swap(k, v); return []any{enc(p), l} })
			rw = guarded(func() []any { p, l := raw.Swap(k, v); return []any{encAny(p), l} })
		case "cas":
			k, old, nw := num(op[1]), dec(num(op[2])), dec(num(op[3]))
			xs = guarded(func() []any { return []any{xm.CompareAndSwap(k, old, nw)} })
			rw = guarded(func() []any { return []any{raw.CompareAndSwap(k, old, nw)} })
		case "cad":
			k, old := num(op[1]), dec(num(op[2]))
			xs = guarded(func() []any { return []any{xm.CompareAndDelete(k, old)} })
			rw = guarded(func() []any { return []any{raw.CompareAndDelete(k, old)} })
		case "range":
			xs = guarded(func() []any {
				var ps [][]any
				xm.Range(func(k int, v V) bool { ps = append(ps, []any{k, enc(v)}); return true })
				return sortPairs(ps)
			})
			rw = guarded(func() []any {
				var ps [][]any
				raw.Range(func(k, v any) bool { ps = append(ps, []any{k.(int), encAny(v)}); return true })
				return sortPairs(ps)
			})
		default:
			xs, rw = "unknown-op", "unknown-op"
		}
		o.Obs = append(o.Obs, []any{xs, rw})
	}
	return o
}
