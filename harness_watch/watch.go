package main

// C18 part A: scenarios for xsync.Watchable, xsync.Future and xsync.Lazy.
//
// A scenario has a fixed set of goroutines ("threads", cfg.threads); the sequential controller
// executes the ops: ["spawn", t] starts thread t (which first waits for its gate, if it has one),
// ["release", g] opens gate g (all threads behind it start racing), ["cancel", c], ["release-f"],
// ["quiesce"].  Invocations are logged before the call and responses after the call returned.

import (
	"context"
	"fmt"
	"runtime"
	"sort"
	"strconv"
	"sync"
	"sync/atomic"
	"time"

	"github.com/bradenaw/juniper/xsync"
)

func init() {
	components["watch"] = runWatch
	components["future"] = runFuture
	components["lazy"] = runLazy
}

func goid() int64 {
	var buf [64]byte
	n := runtime.Stack(buf[:], false)
	s := string(buf[10:n]) // "goroutine 123 ["
	for i := 0; i < len(s); i++ {
		if s[i] == ' ' {
			id, _ := strconv.ParseInt(s[:i], 10, 64)
			return id
		}
	}
	return -1
}

// tlog is a sharded event log: every goroutine appends to its own shard (no contention, so the
// log does not serialise the goroutines it observes); the order of events is the order of their
// sequence numbers, drawn from one atomic counter at the moment the event is logged.  As with
// hlog, invocations are logged before the call and responses after it returned, so sequence
// order is consistent with real-time order.
type tlog struct {
	ctr    int64
	mu     sync.Mutex
	shards []*shard
}

type sev struct {
	seq int64
	ev  []any
}

type shard struct {
	l   *tlog
	mu  sync.Mutex
	evs []sev
}

func (l *tlog) newShard() *shard {
	sh := &shard{l: l}
	l.mu.Lock()
	l.shards = append(l.shards, sh)
	l.mu.Unlock()
	return sh
}

func (sh *shard) add(ev ...any) {
	seq := atomic.AddInt64(&sh.l.ctr, 1)
	sh.mu.Lock()
	sh.evs = append(sh.evs, sev{seq, ev})
	sh.mu.Unlock()
}

func (l *tlog) len() int { return int(atomic.LoadInt64(&l.ctr)) }

func (l *tlog) snapshot() [][]any {
	l.mu.Lock()
	shards := append([]*shard(nil), l.shards...)
	l.mu.Unlock()
	var all []sev
	for _, sh := range shards {
		sh.mu.Lock()
		all = append(all, sh.evs...)
		sh.mu.Unlock()
	}
	sort.Slice(all, func(i, j int) bool { return all[i].seq < all[j].seq })
	out := make([][]any, len(all))
	for i, e := range all {
		out[i] = e.ev
	}
	return out
}

func cfgThreads(c *Case) []map[string]any {
	var out []map[string]any
	if c.Cfg == nil {
		return out
	}
	l, _ := c.Cfg["threads"].([]any)
	for _, x := range l {
		m, _ := x.(map[string]any)
		out = append(out, m)
	}
	return out
}

func cfgInt(m map[string]any, k string, def int) int {
	if v, ok := m[k]; ok && v != nil {
		return num(v)
	}
	return def
}

type gateSet struct {
	mu      sync.Mutex
	gs      map[int]*gate
	behind  map[int]int    // goroutines spawned behind the gate so far
	expect  map[int]*int32 // set at release time: how many goroutines start together
	arrived map[int]*int32
}

// enter is called by a goroutine that starts behind gate i: wait for the gate, then line up with
// the other goroutines of the group (bounded spin) so that they really run concurrently.
func (s *gateSet) enter(i int) {
	s.get(i).wait()
	s.mu.Lock()
	exp, arr := s.expect[i], s.arrived[i]
	s.mu.Unlock()
	if exp == nil || arr == nil {
		return
	}
	atomic.AddInt32(arr, 1)
	deadline := time.Now().Add(300 * time.Microsecond)
	for n := 0; atomic.LoadInt32(arr) < atomic.LoadInt32(exp); n++ {
		if n%64 == 63 && time.Now().After(deadline) {
			return
		}
	}
}

func (s *gateSet) spawnedBehind(i int) {
	s.mu.Lock()
	if s.behind == nil {
		s.behind = map[int]int{}
	}
	s.behind[i]++
	s.mu.Unlock()
}

func (s *gateSet) open(i int) {
	g := s.get(i)
	s.mu.Lock()
	if s.expect == nil {
		s.expect = map[int]*int32{}
		s.arrived = map[int]*int32{}
	}
	if s.expect[i] == nil {
		n := int32(s.behind[i])
		s.expect[i] = &n
		s.arrived[i] = new(int32)
	}
	s.mu.Unlock()
	g.release()
}

func (s *gateSet) get(i int) *gate {
	s.mu.Lock()
	defer s.mu.Unlock()
	if s.gs == nil {
		s.gs = map[int]*gate{}
	}
	g, ok := s.gs[i]
	if !ok {
		g = newGate()
		s.gs[i] = g
	}
	return g
}

func (s *gateSet) releaseAll() {
	s.mu.Lock()
	defer s.mu.Unlock()
	for _, g := range s.gs {
		g.release()
	}
}

// finishScenario: final quiescence, snapshot, clean-up.
func finishScenario(l *tlog, h *shard, quiet bool, wg *sync.WaitGroup, final func(), cleanup func()) *Obs {
	ok := quiesce(l, 5*time.Second, nil)
	quiet = quiet && ok
	h.add("quiesce", ok)
	if final != nil {
		final()
	}
	evs := l.snapshot()
	cleanup()
	done := make(chan struct{})
	go func() { wg.Wait(); close(done) }()
	leaked := false
	select {
	case <-done:
	case <-time.After(5 * time.Second):
		leaked = true
	}
	o := &Obs{}
	for _, e := range evs {
		o.Obs = append(o.Obs, e)
	}
	o.Aux = map[string]any{"quiescent": quiet, "cleanup_leak": leaked}
	return o
}

// ---------------------------------------------------------------- Watchable

type chanIDs struct {
	mu   sync.Mutex
	ids  map[chan struct{}]int
	vals []int
	chs  []chan struct{}
}

func (c *chanIDs) id(ch chan struct{}, v int) int {
	c.mu.Lock()
	defer c.mu.Unlock()
	if i, ok := c.ids[ch]; ok {
		return i
	}
	i := len(c.chs)
	c.ids[ch] = i
	c.chs = append(c.chs, ch)
	c.vals = append(c.vals, v)
	return i
}

func pollClosed(c chan struct{}) bool {
	select {
	case <-c:
		return true
	default:
		return false
	}
}

// thread programs: ["set", v] ["value"] ["value-held", g] ["watch"] (watch = the documented observer loop; never ends)
// With cfg "inst" = "iface" the scenario runs on Watchable[error] in which the value 0 is the nil error (Set(nil)
// is a Set like any other).
type numErr struct{ v int }

func (e *numErr) Error() string { return fmt.Sprint("value ", e.v) }

func runWatch(c *Case) *Obs {
	if inst, _ := c.Cfg["inst"].(string); inst == "iface" {
		return runWatchT[error](c, func(v int) error {
			if v == 0 {
				return nil
			}
			return &numErr{v}
		}, func(x error) int {
			if x == nil {
				return 0
			}
			if e, ok := x.(*numErr); ok {
				return e.v
			}
			return -987654321
		})
	}
	return runWatchT[int](c, func(v int) int { return v }, func(x int) int { return x })
}

func runWatchT[T any](c *Case, mk func(int) T, un func(T) int) *Obs {
	l := &tlog{}
	h := l.newShard() // the controller's shard
	var w xsync.Watchable[T]
	ths := cfgThreads(c)
	gates := &gateSet{}
	ids := &chanIDs{ids: map[chan struct{}]int{}}
	stop := make(chan struct{})
	var wg sync.WaitGroup
	quiet := true
	spawned := map[int]bool{}

	value := func(h *shard, t int) chan struct{} {
		h.add("call-value", t)
		v0, ch := w.Value()
		v := un(v0)
		closed := pollClosed(ch)
		h.add("ret-value", t, v, closed, ids.id(ch, v))
		return ch
	}
	body := func(h *shard, t int, prog []any) {
		for _, a_ := range prog {
			a := a_.([]any)
			switch a[0].(string) {
			case "set":
				v := num(a[1])
				h.add("call-set", t, v)
				w.Set(mk(v))
				h.add("ret-set", t)
			case "value":
				value(h, t)
			case "value-held":
				// the caller is held between the return of Value and its look at the channel
				h.add("call-value", t)
				v0, ch := w.Value()
				v := un(v0)
				gates.get(num(a[1])).wait()
				closed := pollClosed(ch)
				h.add("ret-value", t, v, closed, ids.id(ch, v))
			case "watch":
				for {
					ch := value(h, t)
					select {
					case <-ch:
					case <-stop:
						return
					}
				}
			}
		}
	}
	for _, op := range c.Ops {
		switch op[0].(string) {
		case "spawn":
			t := num(op[1])
			if t < 0 || t >= len(ths) || spawned[t] {
				continue
			}
			spawned[t] = true
			g := cfgInt(ths[t], "gate", -1)
			prog, _ := ths[t]["prog"].([]any)
			h.add("spawn", t)
			sh := l.newShard()
			if g >= 0 {
				gates.spawnedBehind(g)
			}
			wg.Add(1)
			go func() {
				defer wg.Done()
				if g >= 0 {
					gates.enter(g)
				}
				if p, val := protect(func() { body(sh, t, prog) }); p {
					sh.add("panic", t, fmt.Sprint(val))
				}
			}()
		case "release":
			h.add("release", num(op[1]))
			gates.open(num(op[1]))
		case "quiesce":
			ok := quiesce(l, 5*time.Second, nil)
			quiet = quiet && ok
			h.add("quiesce", ok)
		}
	}
	var final []any
	var finalClosed [][]any
	o := finishScenario(l, h, quiet, &wg, func() {
		v0, ch := w.Value()
		v := un(v0)
		closed := pollClosed(ch)
		final = []any{v, closed, ids.id(ch, v)}
		ids.mu.Lock()
		for i, ch := range ids.chs {
			finalClosed = append(finalClosed, []any{i, ids.vals[i], pollClosed(ch)})
		}
		ids.mu.Unlock()
	}, func() {
		close(stop)
		gates.releaseAll()
	})
	o.Aux["final"] = final
	o.Aux["final_closed"] = finalClosed
	return o
}

// ---------------------------------------------------------------- Future

// threads: {"kind":"fill","v":v} {"kind":"wait"} {"kind":"waitctx","ctx":c}, each with optional "gate"
func runFuture(c *Case) *Obs {
	l := &tlog{}
	h := l.newShard() // the controller's shard
	f := xsync.NewFuture[int]()
	ths := cfgThreads(c)
	gates := &gateSet{}
	ctxs := newCtxSet()
	var cmu sync.Mutex
	getCtx := func(id int) context.Context {
		cmu.Lock()
		defer cmu.Unlock()
		return ctxs.get(id)
	}
	var wg sync.WaitGroup
	quiet := true
	spawned := map[int]bool{}
	for _, op := range c.Ops {
		switch op[0].(string) {
		case "spawn":
			t := num(op[1])
			if t < 0 || t >= len(ths) || spawned[t] {
				continue
			}
			spawned[t] = true
			g := cfgInt(ths[t], "gate", -1)
			kind, _ := ths[t]["kind"].(string)
			v := cfgInt(ths[t], "v", 0)
			cid := cfgInt(ths[t], "ctx", 0)
			var ctx context.Context
			if kind == "waitctx" {
				ctx = getCtx(cid)
			}
			h.add("spawn", t)
			sh := l.newShard()
			if g >= 0 {
				gates.spawnedBehind(g)
			}
			wg.Add(1)
			go func() {
				defer wg.Done()
				if g >= 0 {
					gates.enter(g)
				}
				switch kind {
				case "fill":
					sh.add("call-fill", t, v)
					if p, _ := protect(func() { f.Fill(v) }); p {
						sh.add("panic-fill", t)
					} else {
						sh.add("ret-fill", t)
					}
				case "wait":
					sh.add("call-wait", t)
					x := f.Wait()
					sh.add("ret-wait", t, x)
				case "waitctx":
					sh.add("call-waitctx", t, cid)
					x, err := f.WaitContext(ctx)
					if err != nil && err != ctx.Err() {
						sh.add("ret-waitctx", t, x, "other:"+err.Error()) // not the context's error
					} else {
						sh.add("ret-waitctx", t, x, err != nil)
					}
				}
			}()
		case "release":
			h.add("release", num(op[1]))
			gates.open(num(op[1]))
		case "cancel":
			h.add("cancel", num(op[1]))
			cmu.Lock()
			ctxs.cancel(num(op[1]))
			cmu.Unlock()
		case "quiesce":
			ok := quiesce(l, 5*time.Second, nil)
			quiet = quiet && ok
			h.add("quiesce", ok)
		}
	}
	filled := false
	o := finishScenario(l, h, quiet, &wg, nil, func() {
		gates.releaseAll()
		cmu.Lock()
		ctxs.cancelAll()
		cmu.Unlock()
		// plain Wait callers can only be released by a Fill: fill once if the scenario never did
		hasFill := false
		for t, th := range ths {
			if k, _ := th["kind"].(string); k == "fill" && spawned[t] {
				hasFill = true
			}
		}
		if !hasFill {
			protect(func() { f.Fill(0) })
			filled = true
		}
	})
	o.Aux["cleanup_fill"] = filled
	return o
}

// ---------------------------------------------------------------- Lazy

// cfg: fgated (f waits for ["release-f"]), fbase (f returns fbase + its invocation number);
// every thread calls the lazy value "calls" times (default 1).
func runLazy(c *Case) *Obs {
	l := &tlog{}
	h := l.newShard() // the controller's shard
	ths := cfgThreads(c)
	gates := &gateSet{}
	fgate := newGate()
	fgated, _ := c.Cfg["fgated"].(bool)
	fbase := cfgInt(c.Cfg, "fbase", 100)
	var count int32
	var wmu sync.Mutex
	who := map[int64]int{}
	whoShard := map[int64]*shard{}
	lazy := xsync.Lazy(func() int {
		n := int(atomic.AddInt32(&count, 1))
		wmu.Lock()
		t, ok := who[goid()]
		sh := whoShard[goid()]
		wmu.Unlock()
		if !ok {
			t = -1
			sh = l.newShard()
		}
		sh.add("f-enter", t, n)
		if fgated {
			fgate.wait()
		}
		v := fbase + n
		sh.add("f-exit", t, v)
		return v
	})
	var wg sync.WaitGroup
	quiet := true
	spawned := map[int]bool{}
	for _, op := range c.Ops {
		switch op[0].(string) {
		case "spawn":
			t := num(op[1])
			if t < 0 || t >= len(ths) || spawned[t] {
				continue
			}
			spawned[t] = true
			g := cfgInt(ths[t], "gate", -1)
			calls := cfgInt(ths[t], "calls", 1)
			h.add("spawn", t)
			sh := l.newShard()
			if g >= 0 {
				gates.spawnedBehind(g)
			}
			wg.Add(1)
			go func() {
				defer wg.Done()
				wmu.Lock()
				who[goid()] = t
				whoShard[goid()] = sh
				wmu.Unlock()
				if g >= 0 {
					gates.enter(g)
				}
				for i := 0; i < calls; i++ {
					sh.add("call-lazy", t)
					v := lazy()
					sh.add("ret-lazy", t, v)
				}
			}()
		case "release":
			h.add("release", num(op[1]))
			gates.open(num(op[1]))
		case "release-f":
			h.add("release-f")
			fgate.release()
		case "quiesce":
			ok := quiesce(l, 5*time.Second, nil)
			quiet = quiet && ok
			h.add("quiesce", ok)
		}
	}
	o := finishScenario(l, h, quiet, &wg, nil, func() {
		gates.releaseAll()
		fgate.release()
	})
	o.Aux["f_count"] = int(atomic.LoadInt32(&count))
	return o
}
