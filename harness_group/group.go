package main

// C17: xsync.Group scenarios. A sequential controller executes the scenario's steps; every API
// call (registration, trigger call, Stop/StopAndWait) is logged with Call before and Ret after the
// call; the functions f passed to the group are up-calls into this file: they log f-enter/f-exit
// and wait at a per-registration gate (or for ctx.Done) in between.
//
// ops:
//   ["reg", r, kind, fmode, open, async]   kind: do|periodic|trigger|pot  fmode: gate|ctx
//   ["trig", t, r, async]                  call the trigger function returned by registration r
//   ["stop", k, wait, async]               Stop (wait=false) or StopAndWait (wait=true)
//   ["cancel"]                             cancel the parent context
//   ["release", r]  ["open", r]            one permit for f of r / open r's gate for good
//   ["race", [op, op, ...]]                start the listed reg/trig/stop/cancel ops simultaneously
//   ["await", r, n]                        wait (one-sided, generous timeout) for n f-enters of r
//   ["quiesce"]
//   ["hammer", iters, nreg, seed]        (alone in its case) see runHammer

import (
	"context"
	"math/rand"
	"runtime"
	"sync"
	"sync/atomic"
	"time"

	"github.com/bradenaw/juniper/xsync"
)

func init() { components["group"] = runGroup }

type pgate struct {
	permits chan struct{}
	open    chan struct{}
	once    sync.Once
}

func newPGate(open bool) *pgate {
	g := &pgate{permits: make(chan struct{}, 4096), open: make(chan struct{})}
	if open {
		g.setOpen()
	}
	return g
}
func (g *pgate) setOpen() { g.once.Do(func() { close(g.open) }) }
func (g *pgate) isOpen() bool {
	select {
	case <-g.open:
		return true
	default:
		return false
	}
}
func (g *pgate) release() {
	select {
	case g.permits <- struct{}{}:
	default:
	}
}
func (g *pgate) pass() {
	if g.isOpen() {
		return
	}
	select {
	case <-g.permits:
	case <-g.open:
	}
}

type groupScen struct {
	h      *hlog
	g      *xsync.Group
	cancel context.CancelFunc

	mu       sync.Mutex
	gates    map[int]*pgate
	kinds    map[int]string
	started  map[int]bool          // registration r has been issued
	regDone  map[int]chan struct{} // closed when registration r returned
	trigFn   map[int]func()
	usedTrig map[int]bool
	usedStop map[int]bool
	inF      map[int]*int32
	enters   map[int]*int64

	stopKnown int32 // a Stop/StopAndWait or the parent cancel has been issued
	calls     sync.WaitGroup
}

func (sc *groupScen) periodicKind(k string) bool { return k == "periodic" || k == "pot" }

// a periodic registration that is not inside f will be woken by its timer
func (sc *groupScen) pendingTimers() bool {
	if atomic.LoadInt32(&sc.stopKnown) != 0 {
		return false
	}
	sc.mu.Lock()
	defer sc.mu.Unlock()
	for r, k := range sc.kinds {
		if sc.periodicKind(k) && atomic.LoadInt32(sc.inF[r]) == 0 {
			return true
		}
	}
	return false
}

// quiescence cannot be observed while a periodic f runs freely
func (sc *groupScen) canQuiesce() bool {
	if atomic.LoadInt32(&sc.stopKnown) != 0 {
		return true
	}
	sc.mu.Lock()
	defer sc.mu.Unlock()
	for r, k := range sc.kinds {
		if sc.periodicKind(k) && sc.gates[r] != nil && sc.gates[r].isOpen() {
			return false
		}
	}
	return true
}

func (sc *groupScen) makeF(r int, fctx bool) func(ctx context.Context) {
	sc.mu.Lock()
	g := sc.gates[r]
	in := sc.inF[r]
	en := sc.enters[r]
	sc.mu.Unlock()
	return func(ctx context.Context) {
		atomic.StoreInt32(in, 1)
		sc.h.add("f-enter", r)
		atomic.AddInt64(en, 1)
		if fctx {
			<-ctx.Done()
		} else {
			g.pass()
		}
		sc.h.add("f-exit", r)
		atomic.StoreInt32(in, 0)
	}
}

func (sc *groupScen) interval(r int) (time.Duration, time.Duration) {
	iv := time.Duration(1+r%3) * time.Millisecond
	var jit time.Duration
	if r%2 == 1 {
		jit = iv / 2
	}
	return iv, jit
}

// prepare is executed by the controller before the call is started (possibly in another goroutine);
// it returns false if the op must be skipped (duplicate id, unknown registration, ...).
func (sc *groupScen) prepare(op []any) bool {
	sc.mu.Lock()
	defer sc.mu.Unlock()
	switch op[0].(string) {
	case "reg":
		r := num(op[1])
		if sc.started[r] {
			return false
		}
		sc.started[r] = true
		sc.kinds[r] = op[2].(string)
		sc.gates[r] = newPGate(op[4].(bool))
		sc.regDone[r] = make(chan struct{})
		sc.inF[r] = new(int32)
		sc.enters[r] = new(int64)
		return true
	case "trig":
		t, r := num(op[1]), num(op[2])
		k, ok := sc.kinds[r]
		if !ok || sc.usedTrig[t] || !(k == "trigger" || k == "pot") {
			return false
		}
		sc.usedTrig[t] = true
		return true
	case "stop":
		k := num(op[1])
		if sc.usedStop[k] {
			return false
		}
		sc.usedStop[k] = true
		atomic.StoreInt32(&sc.stopKnown, 1)
		return true
	case "cancel":
		atomic.StoreInt32(&sc.stopKnown, 1)
		return true
	}
	return false
}

// call performs one API call in the current goroutine.
func (sc *groupScen) call(op []any) {
	h := sc.h
	switch op[0].(string) {
	case "reg":
		r, kind, fctx := num(op[1]), op[2].(string), op[3].(string) == "ctx"
		f := sc.makeF(r, fctx)
		iv, jit := sc.interval(r)
		var fn func()
		h.add("call-reg", r)
		switch kind {
		case "do":
			sc.g.Do(f)
		case "periodic":
			sc.g.Periodic(iv, jit, f)
		case "trigger":
			fn = sc.g.Trigger(f)
		case "pot":
			fn = sc.g.PeriodicOrTrigger(iv, jit, f)
		}
		h.add("ret-reg", r)
		sc.mu.Lock()
		sc.trigFn[r] = fn
		done := sc.regDone[r]
		sc.mu.Unlock()
		close(done)
	case "trig":
		t, r := num(op[1]), num(op[2])
		sc.mu.Lock()
		done := sc.regDone[r]
		sc.mu.Unlock()
		<-done // the trigger function is the registration's return value
		sc.mu.Lock()
		fn := sc.trigFn[r]
		sc.mu.Unlock()
		h.add("call-trig", t)
		fn()
		h.add("ret-trig", t)
	case "stop":
		k, wait := num(op[1]), op[2].(bool)
		h.add("call-stop", k)
		if wait {
			sc.g.StopAndWait()
		} else {
			sc.g.Stop()
		}
		h.add("ret-stop", k)
	case "cancel":
		h.add("cancel")
		sc.cancel()
	}
}

func opAsync(op []any) bool {
	switch op[0].(string) {
	case "reg":
		return len(op) > 5 && op[5].(bool)
	case "trig":
		return len(op) > 3 && op[3].(bool)
	case "stop":
		return len(op) > 3 && op[3].(bool)
	}
	return false
}

func spin(n int) {
	for i := 0; i < n; i++ {
		_ = i
	}
}

// hammer: many short trials of registrations racing StopAndWait on a fresh group, all participants
// released together by a spin barrier. The windows inside spawn (between the ctx.Err() check,
// wg.Add and RUnlock) are a few nanoseconds wide; only brute force reaches them through the public
// API. Checked directly: no f is running when StopAndWait returns and none starts afterwards.
func runHammer(c *Case) *Obs {
	iters, nreg := num(c.Ops[0][1]), num(c.Ops[0][2])
	seed := int64(num(c.Ops[0][3]))
	rng := rand.New(rand.NewSource(seed))
	late, running := 0, 0
	for it := 0; it < iters; it++ {
		// every other trial the group's parent context is cancelled by one more participant, at a random moment
		parent, cancelParent := context.WithCancel(context.Background())
		g := xsync.NewGroup(parent)
		var start, returned, lateF, runF, inF, ready int32
		var wg sync.WaitGroup
		f := func(ctx context.Context) {
			atomic.AddInt32(&inF, 1)
			if atomic.LoadInt32(&returned) != 0 {
				atomic.StoreInt32(&lateF, 1)
			}
			spin(50)
			atomic.AddInt32(&inF, -1)
		}
		for r := 0; r < nreg; r++ {
			wg.Add(1)
			d := rng.Intn(400)
			useTrigger := rng.Intn(3) == 0
			go func() {
				defer wg.Done()
				atomic.AddInt32(&ready, 1)
				for atomic.LoadInt32(&start) == 0 {
				}
				spin(d)
				if useTrigger {
					g.Trigger(f)()
				} else {
					g.Do(f)
				}
			}()
		}
		wg.Add(1)
		d := rng.Intn(400)
		go func() {
			defer wg.Done()
			atomic.AddInt32(&ready, 1)
			for atomic.LoadInt32(&start) == 0 {
			}
			spin(d)
			g.StopAndWait()
			if atomic.LoadInt32(&inF) != 0 {
				atomic.StoreInt32(&runF, 1)
			}
			atomic.StoreInt32(&returned, 1)
		}()
		extra := 0
		if it%2 == 1 {
			extra = 1
			wg.Add(1)
			dc := rng.Intn(400)
			go func() {
				defer wg.Done()
				atomic.AddInt32(&ready, 1)
				for atomic.LoadInt32(&start) == 0 {
				}
				spin(dc)
				cancelParent()
			}()
		}
		for atomic.LoadInt32(&ready) < int32(nreg+1+extra) {
			runtime.Gosched()
		}
		atomic.StoreInt32(&start, 1)
		wg.Wait()
		cancelParent()
		spin(2000)
		g.StopAndWait()
		spin(2000)
		if atomic.LoadInt32(&lateF) != 0 {
			late++
		}
		if atomic.LoadInt32(&runF) != 0 {
			running++
		}
	}
	o := &Obs{}
	o.Obs = append(o.Obs, []any{"hammer", iters, late, running})
	o.Aux = map[string]any{"quiescent": true, "cleanup_leak": false, "await_timeouts": 0, "skipped_quiesce": 0}
	return o
}

// After repeated time-outs in this process (an implementation that hangs) the remaining waits are cut
// short: their outcome is "inconclusive" either way, and the run must not take hours.
var timeoutsSeen int32

func patience(long time.Duration) time.Duration {
	if atomic.LoadInt32(&timeoutsSeen) >= 2 {
		return long / 20
	}
	return long
}

func runGroup(c *Case) *Obs {
	if len(c.Ops) > 0 && c.Ops[0][0].(string) == "hammer" {
		return runHammer(c)
	}
	h := &hlog{}
	parent, cancel := zooContext(0)
	sc := &groupScen{h: h, g: xsync.NewGroup(parent), cancel: cancel,
		gates: map[int]*pgate{}, kinds: map[int]string{}, started: map[int]bool{}, regDone: map[int]chan struct{}{},
		trigFn: map[int]func(){}, usedTrig: map[int]bool{}, usedStop: map[int]bool{},
		inF: map[int]*int32{}, enters: map[int]*int64{}}
	quiet := true
	awaitTimeouts := 0
	skippedQuiesce := 0
	doQuiesce := func() {
		if !sc.canQuiesce() {
			skippedQuiesce++
			return
		}
		ok := quiesce(h, patience(5*time.Second), sc.pendingTimers)
		if !ok {
			atomic.AddInt32(&timeoutsSeen, 1)
		}
		quiet = quiet && ok
		h.add("quiesce", ok)
	}
	for _, op := range c.Ops {
		switch op[0].(string) {
		case "reg", "trig", "stop", "cancel":
			if !sc.prepare(op) {
				continue
			}
			if opAsync(op) {
				sc.calls.Add(1)
				op := op
				go func() { defer sc.calls.Done(); sc.call(op) }()
			} else if op[0].(string) == "stop" && op[2].(bool) {
				// a synchronous StopAndWait would block the controller while a gate is closed
				sc.calls.Add(1)
				op := op
				go func() { defer sc.calls.Done(); sc.call(op) }()
			} else {
				sc.call(op)
			}
		case "race":
			start := make(chan struct{})
			var ready sync.WaitGroup
			for _, s := range op[1].([]any) {
				sub := s.([]any)
				if !sc.prepare(sub) {
					continue
				}
				ready.Add(1)
				sc.calls.Add(1)
				go func() {
					defer sc.calls.Done()
					ready.Done()
					<-start
					sc.call(sub)
				}()
			}
			ready.Wait()
			close(start)
		case "release":
			r := num(op[1])
			sc.mu.Lock()
			g := sc.gates[r]
			sc.mu.Unlock()
			if g != nil {
				h.add("release", r)
				g.release()
			}
		case "open":
			r := num(op[1])
			sc.mu.Lock()
			g := sc.gates[r]
			sc.mu.Unlock()
			if g != nil {
				h.add("open", r)
				g.setOpen()
			}
		case "await":
			r, n := num(op[1]), int64(num(op[2]))
			sc.mu.Lock()
			en := sc.enters[r]
			sc.mu.Unlock()
			if en == nil {
				continue
			}
			deadline := time.Now().Add(patience(10 * time.Second))
			ok := false
			for {
				if atomic.LoadInt64(en) >= n {
					ok = true
					break
				}
				if time.Now().After(deadline) {
					break
				}
				time.Sleep(100 * time.Microsecond)
			}
			if !ok {
				awaitTimeouts++
				atomic.AddInt32(&timeoutsSeen, 1)
			}
			h.add("await", r, int(n), ok)
		case "quiesce":
			doQuiesce()
		}
	}
	doQuiesce()
	evs := h.snapshot()
	// clean up: open every gate, stop the group, wait for every goroutine of the scenario
	sc.mu.Lock()
	for _, g := range sc.gates {
		g.setOpen()
	}
	sc.mu.Unlock()
	cancel()
	done := make(chan struct{})
	go func() { sc.g.StopAndWait(); sc.calls.Wait(); close(done) }()
	leaked := false
	select {
	case <-done:
	case <-time.After(patience(5 * time.Second)):
		leaked = true
		atomic.AddInt32(&timeoutsSeen, 1)
	}
	o := &Obs{}
	for _, e := range evs {
		o.Obs = append(o.Obs, e)
	}
	o.Aux = map[string]any{"quiescent": quiet, "cleanup_leak": leaked, "await_timeouts": awaitTimeouts,
		"skipped_quiesce": skippedQuiesce}
	return o
}
