package main

// Support for concurrent scenarios: event log, gates, structural quiescence detection.

import (
	"bytes"
	"context"
	"errors"
	"os"
	"regexp"
	"runtime"
	"strconv"
	"sync"
	"time"
)

// hlog is the recorded history of one scenario. Invocations are logged before the call,
// responses after it returned, so log order is consistent with real-time order.
type hlog struct {
	mu  sync.Mutex
	evs [][]any
}

func (h *hlog) add(ev ...any) {
	h.mu.Lock()
	h.evs = append(h.evs, ev)
	h.mu.Unlock()
}

func (h *hlog) len() int {
	h.mu.Lock()
	defer h.mu.Unlock()
	return len(h.evs)
}

func (h *hlog) snapshot() [][]any {
	h.mu.Lock()
	defer h.mu.Unlock()
	out := make([][]any, len(h.evs))
	copy(out, h.evs)
	return out
}

// gate blocks callers of wait() until release() is called (once released it stays open).
type gate struct {
	once sync.Once
	c    chan struct{}
}

func newGate() *gate     { return &gate{c: make(chan struct{})} }
func (g *gate) wait()    { <-g.c }
func (g *gate) release() { g.once.Do(func() { close(g.c) }) }

var goroutineHeader = regexp.MustCompile(`(?m)^goroutine (\d+) \[([^\],]+)`)

// blocked states: a goroutine in one of these cannot make progress by itself
var blockedStates = map[string]bool{
	"chan receive": true, "chan send": true, "select": true, "select (no cases)": true,
	"semacquire": true, "sync.Cond.Wait": true, "sync.Mutex.Lock": true, "sync.RWMutex.RLock": true,
	"sync.RWMutex.Lock": true, "sync.WaitGroup.Wait": true, "chan receive (nil chan)": true,
	"chan send (nil chan)": true, "finalizer wait": true, "GC assist wait": false,
}

// allBlocked reports whether every goroutine other than the caller is in a blocked state.
func allBlocked() bool {
	buf := make([]byte, 1<<20)
	for {
		n := runtime.Stack(buf, true)
		if n < len(buf) {
			buf = buf[:n]
			break
		}
		buf = make([]byte, 2*len(buf))
	}
	first := true
	for _, m := range goroutineHeader.FindAllSubmatch(buf, -1) {
		if first { // the calling goroutine is printed first ("running")
			first = false
			continue
		}
		st := string(bytes.TrimSpace(m[2]))
		if !blockedStates[st] {
			return false
		}
	}
	return true
}

// quiesce waits until the scenario can make no further progress: every goroutine is blocked,
// the log did not grow, observed twice in a row. pendingTimers must return true while a timer
// the scenario depends on may still fire. Returns false if no quiescence within maxWait.
// quiescePatience is read once from VERIF_PATIENCE_MS (0 = off).
var quiescePatience = func() time.Duration {
	ms, _ := strconv.Atoi(os.Getenv("VERIF_PATIENCE_MS"))
	return time.Duration(ms) * time.Millisecond
}()

func quiesce(h *hlog, maxWait time.Duration, pendingTimers func() bool) bool {
	deadline := time.Now().Add(maxWait)
	stable := 0
	last := -1
	for time.Now().Before(deadline) {
		runtime.Gosched()
		n := h.len()
		if (pendingTimers == nil || !pendingTimers()) && allBlocked() && n == last {
			stable++
			if stable >= 2 {
				if quiescePatience > 0 {
					// patience mode (VERIF_PATIENCE_MS): a quiescent state must stay quiescent; a call that
					// gives up or moves on by itself after some time (a hidden timer) shows up here
					time.Sleep(quiescePatience)
					if !(allBlocked() && h.len() == n) {
						stable = 0
						last = h.len()
						continue
					}
				}
				return true
			}
		} else {
			stable = 0
		}
		last = n
		time.Sleep(200 * time.Microsecond)
	}
	return false
}

// ctxSet manages the cancellable contexts of a scenario.
type ctxSet struct {
	ctxs    map[int]context.Context
	cancels map[int]func()
}

func newCtxSet() *ctxSet {
	return &ctxSet{ctxs: map[int]context.Context{}, cancels: map[int]func(){}}
}

func (s *ctxSet) get(id int) context.Context {
	if c, ok := s.ctxs[id]; ok {
		return c
	}
	c, cancel := zooContext(id)
	s.ctxs[id] = c
	s.cancels[id] = cancel
	return c
}

func (s *ctxSet) cancel(id int) {
	if _, ok := s.ctxs[id]; !ok && ctxZooSeed >= 0 && (ctxZooSeed+id)%2 == 0 {
		// ended before anybody has seen it: a context whose deadline had already passed when it was created
		// (Err() is DeadlineExceeded, Deadline() lies in the past)
		c, cancel := context.WithDeadline(context.Background(), time.Now().Add(-time.Second))
		s.ctxs[id] = c
		s.cancels[id] = cancel
		return
	}
	s.get(id)
	s.cancels[id]()
}

func (s *ctxSet) cancelAll() {
	for _, c := range s.cancels {
		c()
	}
}

// ---- context zoo. A scenario's contexts are not all context.WithCancel contexts: depending on cfg "ctxseed" a context
// is cancelled with a cause (ctx.Err() stays context.Canceled, context.Cause(ctx) is errCtxCause - code must
// report ctx.Err()), or is a context type of our own that ends with context.DeadlineExceeded (code must not assume
// that an ended context reports context.Canceled). Without "ctxseed" every context is a plain WithCancel context.

var errCtxCause = errors.New("verif: the cause the context was cancelled with")

var ctxZooSeed = -1

func setCtxZoo(cfg map[string]any) {
	ctxZooSeed = -1
	if v, ok := cfg["ctxseed"]; ok {
		if f, ok := v.(float64); ok {
			ctxZooSeed = int(f)
		}
	}
}

type manualCtx struct {
	done  chan struct{}
	mu    sync.Mutex
	err   error
	after map[int]func()
	next  int
}

func (m *manualCtx) Deadline() (time.Time, bool) { return time.Time{}, false }
func (m *manualCtx) Done() <-chan struct{}       { return m.done }
func (m *manualCtx) Value(any) any               { return nil }
func (m *manualCtx) Err() error {
	m.mu.Lock()
	defer m.mu.Unlock()
	return m.err
}

// AfterFunc is the hook package context uses to propagate the end of a parent that is not one of its own types:
// the registered functions (cancellation of derived contexts) run inside expire, so that - as with the standard
// context types - every derived context has ended when the call that ended the parent returns.
func (m *manualCtx) AfterFunc(f func()) (stop func() bool) {
	m.mu.Lock()
	defer m.mu.Unlock()
	if m.after == nil {
		m.after = map[int]func(){}
	}
	id := m.next
	m.next++
	m.after[id] = f
	return func() bool {
		m.mu.Lock()
		defer m.mu.Unlock()
		_, ok := m.after[id]
		delete(m.after, id)
		return ok
	}
}

func (m *manualCtx) expire() {
	m.mu.Lock()
	if m.err != nil {
		m.mu.Unlock()
		return
	}
	m.err = context.DeadlineExceeded
	close(m.done)
	fs := m.after
	m.after = nil
	m.mu.Unlock()
	for _, f := range fs {
		f()
	}
}

// zooContext returns the id-th context of the running scenario and the function that ends it.
func zooContext(id int) (context.Context, func()) {
	kind := 0
	if ctxZooSeed >= 0 {
		kind = (ctxZooSeed/7 + id*(1+ctxZooSeed%3)) % 3
	}
	switch kind {
	case 1:
		c, cancel := context.WithCancelCause(context.Background())
		return c, func() { cancel(errCtxCause) }
	case 2:
		m := &manualCtx{done: make(chan struct{})}
		return m, m.expire
	}
	c, cancel := context.WithCancel(context.Background())
	return c, cancel
}

// isCtxErr: err is the error of an ended context (identity, not errors.Is: scripted errors may wrap one).
func isCtxErr(err error) bool { return err == context.Canceled || err == context.DeadlineExceeded }
