// Harness runner: executes case files against the real juniper packages and prints one JSON
// observation record per case. Built with -tags verif against $VERIF_REPO (see ../check).
package main

import (
	"bufio"
	"encoding/json"
	"fmt"
	"os"
)

// A case is {"id": n, "ops": [[name, args...], ...]} plus component-specific fields.
type Case struct {
	ID   int               `json:"id"`
	Ops  [][]any           `json:"ops"`
	Cfg  map[string]any    `json:"cfg,omitempty"`
}

type Obs struct {
	ID  int   `json:"id"`
	Obs []any `json:"obs"`
	Raw []any `json:"raw,omitempty"`
	Aux map[string]any `json:"aux,omitempty"`
}

func num(a any) int {
	switch v := a.(type) {
	case float64:
		return int(v)
	case int:
		return v
	}
	panic(fmt.Sprintf("not a number: %v", a))
}

// protect runs f and reports whether it panicked (and with what).
func protect(f func()) (panicked bool, val any) {
	defer func() {
		if r := recover(); r != nil {
			panicked = true
			val = r
		}
	}()
	f()
	return false, nil
}

var components = map[string]func(c *Case) *Obs{}

func main() {
	if len(os.Args) < 2 {
		fmt.Fprintln(os.Stderr, "usage: runner <component> < cases.jsonl > obs.jsonl")
		os.Exit(2)
	}
	run, ok := components[os.Args[1]]
	if !ok {
		fmt.Fprintln(os.Stderr, "unknown component", os.Args[1])
		os.Exit(2)
	}
	in := bufio.NewReaderSize(os.Stdin, 1<<20)
	out := bufio.NewWriterSize(os.Stdout, 1<<20)
	defer out.Flush()
	dec := json.NewDecoder(in)
	enc := json.NewEncoder(out)
	for dec.More() {
		var c Case
		if err := dec.Decode(&c); err != nil {
			fmt.Fprintln(os.Stderr, "decode:", err)
			os.Exit(2)
		}
		setCtxZoo(c.Cfg)
		o := run(&c)
		o.ID = c.ID
		if err := enc.Encode(o); err != nil {
			fmt.Fprintln(os.Stderr, "encode:", err)
			os.Exit(2)
		}
		out.Flush() // a crash in a later case must not lose the observations of the earlier ones
	}
}
